FILE = "asn1tools/compiler.py"

fields("asn1tools/codecs/compiler.py", "CompiledType", _type=Val, type_checker=Val, constraints_checker=Val)
fields("Specification", _types=Map('str', Obj("asn1tools/codecs/compiler.py", "CompiledType")))


@contract("asn1tools/codecs/compiler.py", "CompiledType.check_types", abstract=True)
def _(self, data: Val):
    raises_iff(EncodeError, not tc_ok(ident(self), data))


@contract("asn1tools/codecs/compiler.py", "CompiledType.check_constraints", abstract=True)
def _(self, data: Val):
    raises_iff(ConstraintsError, not cc_ok(ident(self), data))


@contract("asn1tools/codecs/compiler.py", "CompiledType.encode", abstract=True)
def _(self, data: Val) -> ByteArray:
    raises(EncodeError)


@contract("asn1tools/codecs/compiler.py", "CompiledType.decode", abstract=True)
def _(self, data: Bytes) -> Val:
    raises(DecodeError)


@contract("Specification.encode", props=["C11", "C12"])
def _(self, name: Str, data: Val, check_types: Bool, check_constraints: Bool) -> Bytes:
    # C11/C12: bytes are returned only if every enabled check accepted the value -- an ill-typed or out-of-constraint
    # value never reaches the wire silently; an unknown type name is the library's encode error
    raises(EncodeError)
    raises(ConstraintsError)
    ensures(name in self._types)
    ensures(implies(check_types, tc_ok(ident(self._types[name]), data)))
    ensures(implies(check_constraints, cc_ok(ident(self._types[name]), data)))


@contract("Specification.decode", props=["C11"])
def _(self, name: Str, data: Bytes, check_constraints: Bool) -> Val:
    # with constraint checking enabled a decoded value that violates a constraint is never returned
    raises(DecodeError)
    raises(ConstraintsError)
    ensures(name in self._types)
    ensures(implies(check_constraints, cc_ok(ident(self._types[name]), result)))
