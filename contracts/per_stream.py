FILE = "asn1tools/codecs/per.py"

fields("Encoder", number_of_bits=Nat, value=Nat, chunks_number_of_bits=Nat, chunks=AbsList)
fixup("Encoder", "self.number_of_bits %= 4200\nself.value = self.value % (1 << self.number_of_bits)\nself.chunks = []\nself.chunks_number_of_bits = 0")
mutable("Encoder", "number_of_bits", "value", "chunks_number_of_bits", "chunks")
invariant("Encoder", self.number_of_bits >= 0, 0 <= self.value, self.value < pow2(self.number_of_bits),
          self.chunks_number_of_bits >= 0)

fields("Decoder", number_of_bits=Nat, total_number_of_bits=Nat, value=Str)
mutable("Decoder", "number_of_bits", "value")
invariant("Decoder", 0 <= self.number_of_bits, self.number_of_bits <= self.total_number_of_bits,
          len(self.value) == self.total_number_of_bits, is_bitstr(self.value))
fixup("Decoder", "self.total_number_of_bits = 8 * (self.total_number_of_bits % 9)\nself.number_of_bits = min(self.number_of_bits, self.total_number_of_bits)\nself.value = ''.join(rnd.choice('01') for _ in range(self.total_number_of_bits))")


@contract("Decoder.number_of_read_bits", props=["C05", "C16"])
def _(self) -> Int:
    ensures(result == self.total_number_of_bits - self.number_of_bits)


@contract("Decoder.skip_bits", props=["C05", "C16", "C08", "C07"])
def _(self, number_of_bits: Int):
    # a negative count moves the read position back (used after an open type whose content overran its announced
    # length); never before the start of the data
    requires(self.number_of_bits - number_of_bits <= self.total_number_of_bits)
    raises_iff(OutOfDataError, number_of_bits > self.number_of_bits,
               ensures=[self.number_of_bits == old(self.number_of_bits)])
    assigns(self)
    ensures(self.number_of_bits == old(self.number_of_bits) - number_of_bits and self.value == old(self.value))


@contract("Decoder.align_always", props=["C05", "C16", "C08"])
def _(self):
    assigns(self)
    ensures(self.number_of_bits == old(self.number_of_bits) - old(self.number_of_bits) % 8 and self.value == old(self.value))


@contract("Decoder.read_bit", props=["C05", "C16", "C08"])
def _(self) -> Nat:
    raises_iff(OutOfDataError, self.number_of_bits == 0,
               ensures=[self.number_of_bits == old(self.number_of_bits), self.value == old(self.value)])
    use(is_bitstr_slice(self.value, self.total_number_of_bits - self.number_of_bits,
                        self.total_number_of_bits - self.number_of_bits + 1))
    assigns(self)
    ensures(self.number_of_bits == old(self.number_of_bits) - 1 and self.value == old(self.value))
    ensures(result == bits_val(self.value[self.total_number_of_bits - old(self.number_of_bits):
                                          self.total_number_of_bits - old(self.number_of_bits) + 1]))
    ensures(result <= 1)


@contract("Decoder.read_non_negative_binary_integer", props=["C05", "C16", "C08", "C01"])
def _(self, number_of_bits: Nat) -> Nat:
    # checked read: with fewer bits left the library's OutOfDataError is raised and nothing is consumed
    raises_iff(OutOfDataError, number_of_bits > self.number_of_bits,
               ensures=[self.number_of_bits == old(self.number_of_bits), self.value == old(self.value)])
    use(is_bitstr_slice(self.value, self.total_number_of_bits - self.number_of_bits,
                        self.total_number_of_bits - self.number_of_bits + number_of_bits))
    use(bits_val_bound(self.value[self.total_number_of_bits - self.number_of_bits:
                                  self.total_number_of_bits - self.number_of_bits + number_of_bits]))
    assigns(self)
    ensures(self.number_of_bits == old(self.number_of_bits) - number_of_bits and self.value == old(self.value))
    ensures(result == bits_val(self.value[self.total_number_of_bits - old(self.number_of_bits):
                                          self.total_number_of_bits - old(self.number_of_bits) + number_of_bits]))
    ensures(result < pow2(number_of_bits))


# ------------------------------------------------------------------------------------------------ encoder
@contract("Encoder.append_non_negative_binary_integer", props=["C05", "C01"])
def _(self, value: Nat, number_of_bits: Nat):
    # the single most important precondition of the bit codecs: a too-large value silently corrupts earlier bits
    requires(value < pow2(number_of_bits))
    use(cat_bound(self.value, self.number_of_bits, value, number_of_bits))
    use(cat_bound(0, 0, value, number_of_bits))
    assigns(self)
    ensures(self.chunks_number_of_bits + self.number_of_bits
            == old(self.chunks_number_of_bits) + old(self.number_of_bits) + number_of_bits)
    # bits are only ever appended: either to the accumulator, or the accumulator is flushed to a chunk first
    ensures(implies(old(self.number_of_bits) <= 4096,
                    self.chunks_number_of_bits == old(self.chunks_number_of_bits)
                    and self.value == old(self.value) * pow2(number_of_bits) + value))
    ensures(implies(old(self.number_of_bits) > 4096,
                    self.chunks_number_of_bits == old(self.chunks_number_of_bits) + old(self.number_of_bits)
                    and self.value == value and self.number_of_bits == number_of_bits))


@contract("Encoder.append_bit", props=["C05", "C01"])
def _(self, bit: Nat):
    requires(bit <= 1)
    use(cat_bound(self.value, self.number_of_bits, bit, 1))
    assigns(self)
    ensures(self.number_of_bits == old(self.number_of_bits) + 1 and self.value == 2 * old(self.value) + bit
            and self.chunks_number_of_bits == old(self.chunks_number_of_bits))


@contract("Encoder.number_of_bytes", props=["C05"])
def _(self) -> Int:
    ensures(result == (self.chunks_number_of_bits + self.number_of_bits + 7) // 8)


@contract("Encoder.align_always", props=["C05", "C01"])
def _(self):
    # X.691 octet alignment is relative to the start of the whole encoding: all bits written so far count,
    # including those already flushed to chunks; fewer than 8 zero bits are added
    use_post(cat_bound(old(self.value), old(self.number_of_bits), 0, self.number_of_bits - old(self.number_of_bits)))
    assigns(self)
    ensures((self.chunks_number_of_bits + self.number_of_bits) % 8 == 0)
    ensures(0 <= self.number_of_bits - old(self.number_of_bits) and self.number_of_bits - old(self.number_of_bits) < 8)
    ensures(self.value == old(self.value) * pow2(self.number_of_bits - old(self.number_of_bits)))
    ensures(self.chunks_number_of_bits == old(self.chunks_number_of_bits))


@contract("Encoder.append_normally_small_length", props=["C05", "C01"])
def _(self, value: Nat):
    # X.691 11.9.3.4: n <= 64 -> single bit 0 then n-1 in 6 bits; else bit 1 and a general length determinant
    requires(value >= 1)
    requires(self.number_of_bits <= 4096)
    raises_iff(NotImplementedError, value > 127)
    assigns(self)
    ensures(implies(value <= 64, self.number_of_bits == old(self.number_of_bits) + 7
                    and self.value == 128 * old(self.value) + (value - 1)))
    ensures(implies(value > 64, self.number_of_bits == old(self.number_of_bits) + 9
                    and self.value == 512 * old(self.value) + 256 + value))
    ensures(self.chunks_number_of_bits == old(self.chunks_number_of_bits))


@contract("Encoder.append_normally_small_non_negative_whole_number", props=["C05", "C01"])
def _(self, value: Nat):
    # X.691 11.6: n <= 63 -> bit 0 then n in 6 bits; else bit 1 then a semi-constrained whole number
    requires(self.number_of_bits <= 4000)
    use(blen_upper(value))
    use(pow2_mono(blen(value), 8 * ((blen(value) + 7) // 8)))
    assigns(self)
    ensures(implies(value < 64, self.number_of_bits == old(self.number_of_bits) + 7
                    and self.value == 128 * old(self.value) + value))
    ensures(self.chunks_number_of_bits + self.number_of_bits
            >= old(self.chunks_number_of_bits) + old(self.number_of_bits) + 7)


@contract("Encoder.append_bytes", props=["C05", "C01"])
def _(self, data: Bytes):
    requires(self.number_of_bits <= 4096)
    use(be_val_bound(data))
    inline("Encoder.append_bits")
    assigns(self)
    ensures(self.number_of_bits == old(self.number_of_bits) + 8 * len(data))
    ensures(self.value == old(self.value) * pow2(8 * len(data)) + be_val(list(data)))
    ensures(self.chunks_number_of_bits == old(self.chunks_number_of_bits))


@contract("Encoder.append_length_determinant", props=["C05", "C01"])
def _(self, length: Nat) -> Nat:
    # X.691 11.9.3.5-8: one octet below 128, two octets (10xxxxxx xxxxxxxx) below 16K, else a fragment header
    # 110000mm announcing m * 16K items (m = 1..4) and the number of items it announces is returned
    requires(self.number_of_bits <= 4096)
    assigns(self)
    ensures(self.chunks_number_of_bits == old(self.chunks_number_of_bits))
    ensures(implies(length < 128, result == length and self.number_of_bits == old(self.number_of_bits) + 8
                    and self.value == 256 * old(self.value) + length))
    ensures(implies(128 <= length and length < 16384, result == length
                    and self.number_of_bits == old(self.number_of_bits) + 16
                    and self.value == 65536 * old(self.value) + 32768 + length))
    ensures(implies(length >= 16384, self.number_of_bits == old(self.number_of_bits) + 8
                    and result == 16384 * (4 if length >= 65536 else length // 16384)
                    and self.value == 256 * old(self.value) + 192 + result // 16384))


@contract("Decoder.read_length_determinant", props=["C05", "C16", "C08", "C07"])
def _(self) -> Nat:
    # X.691 11.9: exact value and exact consumption (8 or 16 bits) as functions of the unread bit string
    raises_iff(OutOfDataError, self.number_of_bits < ld_size(self.value, self.total_number_of_bits - self.number_of_bits))
    raises_iff(DecodeError, self.number_of_bits >= 8 and ld_bad(self.value, self.total_number_of_bits - self.number_of_bits))
    assigns(self)
    ensures(self.value == old(self.value))
    ensures(self.number_of_bits == old(self.number_of_bits)
            - ld_size(self.value, self.total_number_of_bits - old(self.number_of_bits)))
    ensures(result == ld_val(self.value, self.total_number_of_bits - old(self.number_of_bits)))
    ensures(result < 16384 or result == 16384 or result == 32768 or result == 49152 or result == 65536)


@contract("Decoder.read_normally_small_length", props=["C05", "C16", "C08"])
def _(self) -> Nat:
    raises(OutOfDataError)
    raises(NotImplementedError)
    assigns(self)
    ensures(self.number_of_bits < old(self.number_of_bits) and self.value == old(self.value))
    ensures(0 <= result and result <= 127)


@contract("Decoder.read_normally_small_non_negative_whole_number", props=["C05", "C16", "C08", "C07"])
def _(self) -> Nat:
    opaque("ld_size", "ld_val", "ld_bad")
    # X.691 11.6: exact value and consumption as functions of the unread bit string
    raises(OutOfDataError)
    raises(DecodeError)
    assigns(self)
    ensures(self.value == old(self.value))
    ensures(self.number_of_bits == old(self.number_of_bits)
            - nsn_size(self.value, self.total_number_of_bits - old(self.number_of_bits)))
    ensures(result == nsn_val(self.value, self.total_number_of_bits - old(self.number_of_bits)))


@contract("Decoder.read_constrained_whole_number", props=["C05", "C16", "C08"])
def _(self, minimum: Int, maximum: Int, number_of_bits: Nat) -> Int:
    requires(minimum <= maximum)
    raises(OutOfDataError)
    assigns(self)
    ensures(self.number_of_bits <= old(self.number_of_bits) and self.value == old(self.value))
    ensures(result >= minimum)


@contract("Encoder.append_constrained_whole_number", props=["C05", "C01"])
def _(self, value: Int, minimum: Int, maximum: Int, number_of_bits: Nat):
    # X.691 11.5.7 (aligned): range <= 255 bit field, = 256 one aligned octet, <= 64K two aligned octets
    requires(minimum <= value and value <= maximum and self.number_of_bits <= 4000)
    requires(implies(maximum - minimum + 1 <= 255 or maximum - minimum + 1 > 65536, value - minimum < pow2(number_of_bits)))
    assigns(self)
    ensures(self.chunks_number_of_bits == old(self.chunks_number_of_bits))
    ensures(implies(maximum - minimum + 1 <= 255, self.number_of_bits == old(self.number_of_bits) + number_of_bits
                    and self.value == old(self.value) * pow2(number_of_bits) + (value - minimum)))
    ensures(implies(maximum - minimum + 1 == 256, (self.chunks_number_of_bits + self.number_of_bits) % 8 == 0
                    and self.value % 256 == value - minimum))
    ensures(implies(256 < maximum - minimum + 1 and maximum - minimum + 1 <= 65536,
                    (self.chunks_number_of_bits + self.number_of_bits) % 8 == 0 and self.value % 65536 == value - minimum))
    # exact size of the aligned forms: fewer than 8 padding bits, then one / two octets
    ensures(implies(maximum - minimum + 1 == 256,
                    self.number_of_bits == old(self.number_of_bits)
                    + (8 - (old(self.chunks_number_of_bits) + old(self.number_of_bits)) % 8) % 8 + 8))
    ensures(implies(256 < maximum - minimum + 1 and maximum - minimum + 1 <= 65536,
                    self.number_of_bits == old(self.number_of_bits)
                    + (8 - (old(self.chunks_number_of_bits) + old(self.number_of_bits)) % 8) % 8 + 16))
    ensures(self.number_of_bits >= old(self.number_of_bits))


@contract("Encoder.append_unconstrained_whole_number", props=["C05", "C01"])
def _(self, value: Int):
    # X.691 11.8: length determinant + minimal two's complement octets (bit-exactness of the octets is not stated here;
    # only that whole octets are appended after a one-octet length)
    requires(self.number_of_bits <= 4000)
    requires(-pow2(1000) < value and value < pow2(1000))
    use(blen_upper(abs_(value)))
    use(blen_le(abs_(value), 1000))
    use(pow2_mono(blen(abs_(value)), 8 * ((blen(abs_(value)) + 7) // 8)))
    use(pow2_8((blen(abs_(value)) + 7) // 8 + 1))
    use(pow2_add(8 * ((blen(abs_(value)) + 7) // 8) - 1, 1))
    assigns(self)
    ensures(self.number_of_bits >= old(self.number_of_bits) + 16 and (self.number_of_bits - old(self.number_of_bits)) % 8 == 0)
    ensures(self.chunks_number_of_bits == old(self.chunks_number_of_bits))


@contract("Decoder.read_unconstrained_whole_number", props=["C05", "C16", "C08"])
def _(self) -> Int:
    opaque("ld_size", "ld_val", "ld_bad")
    raises(OutOfDataError)
    raises(DecodeError)
    raises(ValueError)
    assigns(self)
    ensures(self.number_of_bits < old(self.number_of_bits) and self.value == old(self.value))


@contract("Decoder.align", props=["C05", "C16", "C08"])
def _(self):
    # aligned PER: skip to the next octet boundary of the whole encoding
    assigns(self)
    ensures(self.number_of_bits == old(self.number_of_bits) - old(self.number_of_bits) % 8 and self.value == old(self.value))


@contract("Encoder.align", props=["C05", "C01"])
def _(self):
    assigns(self)
    ensures((self.chunks_number_of_bits + self.number_of_bits) % 8 == 0)
    ensures(0 <= self.number_of_bits - old(self.number_of_bits) and self.number_of_bits - old(self.number_of_bits) < 8)
    ensures(self.value == old(self.value) * pow2(self.number_of_bits - old(self.number_of_bits)))
    ensures(self.chunks_number_of_bits == old(self.chunks_number_of_bits))


@contract("Decoder.read_bits", props=["C05", "C16", "C08"])
def _(self, number_of_bits: Nat) -> Bytes:
    # checked read of n bits, returned left-aligned in ceil(n/8) octets.  The out-of-data check, the state update
    # and the frame are proved; that int(v, 2)/hex/unhexlify on the sentinel-prefixed, zero-padded string v cannot
    # fail and yields ceil(n/8) octets is an assumption (string-level reasoning the solvers did not discharge).
    raises_iff(OutOfDataError, number_of_bits > self.number_of_bits,
               ensures=[self.number_of_bits == old(self.number_of_bits), self.value == old(self.value)])
    at_stmt("return binascii.unhexlify(hex(int(value, 2))[4:].rstrip('L'))",
            assume=("builtins int(v,2)/hex/unhexlify on the sentinel-prefixed zero-padded bit string of Decoder.read_bits "
                    "cannot fail and give ceil(n/8) octets (string-level fact, not discharged)",
                    is_bitstr(value) and len(value) > 0 and hex80_even(bits_val(value))
                    and len(hex80_bytes(bits_val(value))) == (number_of_bits + 7) // 8))
    assigns(self)
    ensures(self.number_of_bits == old(self.number_of_bits) - number_of_bits and self.value == old(self.value))
    ensures(len(result) == (number_of_bits + 7) // 8)


@contract("Decoder.read_bytes", props=["C05", "C16", "C08"])
def _(self, number_of_bytes: Nat) -> Bytes:
    raises_iff(OutOfDataError, 8 * number_of_bytes > self.number_of_bits,
               ensures=[self.number_of_bits == old(self.number_of_bits), self.value == old(self.value)])
    assigns(self)
    ensures(self.number_of_bits == old(self.number_of_bits) - 8 * number_of_bytes and self.value == old(self.value))
    ensures(len(result) == number_of_bytes)
