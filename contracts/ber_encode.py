FILE = "asn1tools/codecs/ber.py"


@contract("StandardEncodeMixin.encode_content", abstract=True)
def _(self, data: Val, values: Opt(Val)) -> Bytes:
    raises(EncodeError)
    ensures(list(result) == content_of(ident(self), data))


@contract("StandardEncodeMixin.encode", props=["C03", "C01"], for_class="any")
def _(self, data: Val, encoded: ByteArray, values: Opt(Val)):
    # X.690 8.1: identifier octets, definite minimal length octets (DER 10.1), contents octets; nothing else
    # is appended and nothing before is touched
    requires(self.tag is not None)
    use_abstract("encode_content")
    raises(EncodeError)
    assumes("no contents of 2**1008 octets or more exist (memory); 126 length octets is the X.690 maximum",
            len(content_of(ident(self), data)) < 2 ** 1008)
    assigns(encoded)
    ensures(is_tlv(list(encoded), list(old(encoded)), list(self.tag), content_of(ident(self), data)))


@contract("Boolean.encode_content", props=["C03", "C01"])
def _(self, data: Bool, values: Opt(Val)) -> ByteArray:
    ensures(list(result) == [255 if data else 0])        # DER 11.1: TRUE is 0xFF


@contract("Integer.encode_content", props=["C03", "C01"])
def _(self, data: Int, values: Opt(Val)) -> Bytes:
    ensures(list(result) == be_bytes(data, len(result)) and tc_min_len(data, len(result)))


@contract("Null.encode", props=["C03", "C01"])
def _(self, _: Val, encoded: ByteArray):
    requires(self.tag is not None)
    assigns(encoded)
    ensures(list(encoded) == list(old(encoded)) + list(self.tag) + [0])


@contract("OctetString.encode_content", props=["C03", "C01"])
def _(self, data: Bytes, values: Opt(Val)) -> Bytes:
    ensures(result == data)


@contract("BitString.encode_content", props=["C03", "C01"])
def _(self, data: Tup(Bytes, Nat), values: Opt(Val)) -> ByteArray:
    requires(len(data[0]) >= (data[1] + 7) // 8)
    ensures(bits_content_ok(list(result), list(data[0]), data[1]))


@contract("Enumerated.encode_content", props=["C03", "C01", "C12"])
def _(self, data: Val, values: Opt(Val)) -> Bytes:
    raises_iff(EncodeError, data not in self.data_to_value)
    ensures(list(result) == be_bytes(self.data_to_value[data], len(result))
            and tc_min_len(self.data_to_value[data], len(result)))


@contract("Type.encode", abstract=True)
def _(self, data: Val, encoded: ByteArray, values: Opt(Val)):
    # append-only; errors are the library's encode error
    raises(EncodeError)
    assigns(encoded)
    ensures(len(encoded) >= len(old(encoded)) and encoded[:len(old(encoded))] == old(encoded))


@contract("Choice.encode", props=["C12", "C03", "C01"])
def _(self, data: Tup(Str, Val), encoded: ByteArray, values: Opt(Val)):
    refines("Type.encode")
    # unknown alternative: encode error; an error inside the alternative is located at it (C12)
    raises(EncodeError, ensures=[implies(data[0] in self.name_to_member, located_at(exc, self.name_to_member[data[0]]))])
    ensures(data[0] in self.name_to_member)


@contract("CompiledType.encode", props=["C12", "C18"])
def _(self, data: Val) -> ByteArray:
    # a fresh buffer per call; the error path starts with the top-level type
    raises(EncodeError, ensures=[located_at(exc, self._type)])


fields("MembersType", root_members=ObjSeq("Type"), additions=Opt(AbsList))


@contract("asn1tools/codecs/__init__.py", "BaseType.is_default", abstract=True)
def _(self, value: Val) -> Bool:
    ensures(result == is_dflt(ident(self), value))


@contract("asn1tools/codecs/__init__.py", "BaseType.has_default", abstract=True)
def _(self) -> Bool:
    ensures(result == (self.default is not None))


@contract("MembersType.encode_member", props=["C03", "C01", "C12"], for_class="any")
def _(self, member: Obj("Type"), data: Map('str', Val), encoded_members: ByteArray):
    # X.690 11.5 (DER) / 8.12: a component equal to its DEFAULT is not encoded; absent OPTIONAL/DEFAULT components add
    # nothing; a missing mandatory component is an encode error; an error inside the component is located at it (C12)
    raises(EncodeError, ensures=[implies(member.name in data, located_at(exc, member))])
    assigns(encoded_members)
    ensures(member.name in data or member.optional or member.default is not None)
    ensures(len(encoded_members) >= len(old(encoded_members))
            and encoded_members[:len(old(encoded_members))] == old(encoded_members))
    ensures(implies(member.name not in data, encoded_members == old(encoded_members)))
    ensures(implies(member.name in data and is_dflt(ident(member), data[member.name])
                    and not isinstance(member, AnyDefinedBy), encoded_members == old(encoded_members)))


@contract("get_tag_no_encoding", props=["C03"])
def _(member: Obj("Type")) -> ByteArray:
    # sort key of SET components: the identifier octets with the primitive/constructed bit cleared, i.e. (class, number)
    requires(member.tag is not None)
    ensures(len(result) == len(member.tag) and result[0] == member.tag[0] - (member.tag[0] // 32) % 2 * 32
            and result[1:] == member.tag[1:])


@contract("MembersType.encode_content", props=["C03", "C01", "C12"], for_class="any")
def _(self, data: Map('str', Val), values: Opt(Val)) -> ByteArray:
    raises(EncodeError)
    loop(0, invariant=[len(encoded_members) >= 0])


@contract("ArrayType.encode_content", props=["C03", "C01", "C12"], for_class="any")
def _(self, data: ValSeq, values: Opt(Val)) -> ByteArray:
    # elements are appended one after another (order of the value list); nothing else is written
    raises(EncodeError)
    loop(0, invariant=[len(encoded_elements) >= 0])


@contract("ExplicitTag.encode_content", props=["C03", "C01", "C12"])
def _(self, data: Val, values: Opt(Val)) -> ByteArray:
    raises(EncodeError)


@contract("MembersType.encode_additions", abstract=True)
def _(self, data: Map('str', Val), encoded_members: ByteArray):
    # assumed (NOT verified): extension additions are appended after the root; an EncodeError inside an addition is
    # swallowed by the code (additions are encoded "as far as possible")
    assigns(encoded_members)
    ensures(len(encoded_members) >= len(old(encoded_members)) and encoded_members[:len(old(encoded_members))] == old(encoded_members))


@contract("asn1tools/codecs/compiler.py", "lowest_set_bit", abstract=True)
def _(value: Int) -> Nat:
    # index of the lowest set bit (0 for 0); assumed: (value & -value) is a bit trick outside the modelled shapes
    ensures(result >= 0)


@contract("encode_real", props=["C01", "C03"], bounded="integer part only: floating point operations are unconstrained")
def _(data: Float) -> Bytes:
    # REAL (X.690 8.5), integer part only: IEEE-754 operations (frexp, float multiplication, comparisons with inf/nan)
    # are outside this family and are treated as returning arbitrary values; what IS decided for every such value is
    # that the one-octet exponent form is used only for exponents that fit one octet of two's complement, the
    # two-octet form only for those that fit two, and that the exponent octets written are that two's complement
    raises(NotImplementedError)
    raises(ValueError)           # 0x80 | ... > 255 cannot happen; binascii on an odd digit count cannot happen: see cut points
    at_stmt("exponent = [128 | negative_bit, 255 - exponent & 255]",
            check=[-128 <= exponent and exponent <= 127])
    at_stmt("exponent = 65535 - exponent & 65535",
            check=[-32768 <= exponent and exponent <= 32767])
