FILE = "asn1tools/codecs/gser.py"

fields("asn1tools/codecs/__init__.py", "BaseType", name=Str, type_name=Str, optional=Bool, default=Opt(Val))
fields("Choice", name_to_member=Map('str', Obj("Type")))
fields("Enumerated", data_to_value=Map('val', Str))
fields("CompiledType", _type=Obj("Type"), _value_name=Str, _value_type=Str)
formatting("Choice.format_names")


@contract("Type.encode", abstract=True)
def _(self, data: Val, separator: Str, indent: Int) -> Str:
    raises(EncodeError)
    ensures(result == gser_of(ident(self), data, separator, indent))


@contract("encode_string", props=["C20"])
def _(data: Str) -> Str:
    # RFC 3641 3.2 StringValue: quotation marks inside the value are doubled, so the closing quote is unambiguous
    ensures(result == gser_string(data))


@contract("Boolean.encode", props=["C20"])
def _(self, data: Bool, _separator: Str, _indent: Int) -> Str:
    ensures(result == gser_boolean(data))


@contract("Integer.encode", props=["C20"])
def _(self, data: Int, _separator: Str, _indent: Int) -> Str:
    ensures(result == gser_integer(data))


@contract("Null.encode", props=["C20"])
def _(self, _data: Val, _separator: Str, _indent: Int) -> Str:
    ensures(result == 'NULL')


@contract("UTF8String.encode", props=["C20"])
def _(self, data: Str, _separator: Str, _indent: Int) -> Str:
    ensures(result == gser_string(data))


@contract("IA5String.encode", props=["C20"])
def _(self, data: Str, _separator: Str, _indent: Int) -> Str:
    ensures(result == gser_string(data))


@contract("Enumerated.encode", props=["C20", "C12"])
def _(self, data: Val, _separator: Str, _indent: Int) -> Str:
    raises_iff(EncodeError, data not in self.data_to_value, ensures=[len(exc.location) == 0])
    ensures(result == self.data_to_value[data])


@contract("Choice.encode", props=["C20", "C12"])
def _(self, data: Tup(Str, Val), separator: Str, indent: Int) -> Str:
    # ChoiceValue: identifier ":" value; an error inside the alternative is located at it
    raises(EncodeError, ensures=[implies(data[0] in self.name_to_member, located_at(exc, self.name_to_member[data[0]]))])
    ensures(data[0] in self.name_to_member)
    ensures(result == data[0] + ' : ' + gser_of(ident(self.name_to_member[data[0]]), data[1], separator, indent))


@contract("CompiledType.encode", props=["C20", "C12"])
def _(self, data: Val, indent: Opt(Int)) -> Bytes:
    # "name Type ::= value": the value text is that of the type (compact: separator ' ', indent 0; else newline + indent),
    # only leading spaces are stripped; nothing inside the value is rewritten
    raises(EncodeError, ensures=[located_at(exc, self._type)])
    ensures(implies(indent is None,
                    list(result) == text_encode(self._value_name + ' ' + self._value_type + ' ::= '
                                                + str_lstrip(gser_of(ident(self._type), data, ' ', 0), ' '), 'utf-8')))
    ensures(implies(indent is not None,
                    list(result) == text_encode(self._value_name + ' ' + self._value_type + ' ::= '
                                                + str_lstrip(gser_of(ident(self._type), data, '\n', indent), ' '), 'utf-8')))


@contract("NumericString.encode", props=["C20"])
def _(self, data: Str, _separator: Str, _indent: Int) -> Str:
    ensures(result == gser_string(data))


@contract("PrintableString.encode", props=["C20"])
def _(self, data: Str, _separator: Str, _indent: Int) -> Str:
    ensures(result == gser_string(data))


@contract("VisibleString.encode", props=["C20"])
def _(self, data: Str, _separator: Str, _indent: Int) -> Str:
    ensures(result == gser_string(data))


@contract("GeneralString.encode", props=["C20"])
def _(self, data: Str, _separator: Str, _indent: Int) -> Str:
    ensures(result == gser_string(data))


@contract("BMPString.encode", props=["C20"])
def _(self, data: Str, _separator: Str, _indent: Int) -> Str:
    ensures(result == gser_string(data))


@contract("GraphicString.encode", props=["C20"])
def _(self, data: Str, _separator: Str, _indent: Int) -> Str:
    ensures(result == gser_string(data))


@contract("UniversalString.encode", props=["C20"])
def _(self, data: Str, _separator: Str, _indent: Int) -> Str:
    ensures(result == gser_string(data))


@contract("TeletexString.encode", props=["C20"])
def _(self, data: Str, _separator: Str, _indent: Int) -> Str:
    ensures(result == gser_string(data))


fields("MembersType", members=ObjSeq("Type"))
fields("ArrayType", element_type=Obj("Type"))


@contract("MembersType.encode", props=["C20", "C12"], for_class="any")
def _(self, data: Map('str', Val), separator: Str, indent: Int) -> Str:
    # only the library's encode error escapes; and every component that is present in the value is written -- whatever
    # its value (a NULL component's value is None), OPTIONAL or not: g_in counts the components present in the value,
    # g_out the components written
    raises(EncodeError)
    ghost_init(g_in=0, g_out=0)
    at_stmt("name = member.name", set=dict(g_in=g_in + (1 if member.name in data else 0)))
    at_stmt("encoded_members.append(encoded_member)", set=dict(g_out=g_out + 1))
    loop(0, invariant=[g_in == g_out])


@contract("ArrayType.encode", props=["C20", "C12"], for_class="any")
def _(self, data: ValSeq, separator: Str, indent: Int) -> Str:
    raises(EncodeError)
    loop(0, invariant=[True])


@contract("BitString.encode", props=["C20"])
def _(self, data: Tup(Bytes, Nat), _separator: Str, _indent: Int) -> Str:
    # RFC 3641 3.5 bstring: a quote, exactly one binary digit per bit of the value, a quote and the letter B
    requires(data[1] <= 8 * len(data[0]))
    use(be_val_bound(data[0]))
    use(pow2_add(8 * len(data[0]), 7))
    use(pow2_add(8 * len(data[0]), 8))
    use(blen_exact(be_val(list(data[0])) + 128 * pow2(8 * len(data[0])), 8 * len(data[0]) + 8))
    ensures(len(result) == data[1] + 3)
