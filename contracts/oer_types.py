FILE = "asn1tools/codecs/oer.py"

fields("Type", tag=Opt(Bytes), module_name=Opt(Str))
fields("Integer", has_extension_marker=Bool, length=Opt(Int), fmt=Opt(Str), signed=Bool)
fields("BitString", number_of_bits=Opt(Int), named_bits=Val)
fields("OctetString", number_of_bytes=Opt(Int))
fields("KnownMultiplierStringType", number_of_bytes=Opt(Int))
fields("Enumerated", has_extension_marker=Bool, value_to_data=Map('int', Val), data_to_value=Map('val', Int))
fields("ArrayType", element_type=Obj("Type"))


@contract("Type.decode", abstract=True)
def _(self, decoder: Obj("Decoder")) -> Val:
    # unconditional half: never reads past the end, never un-reads, only library decode errors
    raises(DecodeError)
    raises(UnicodeDecodeError)
    raises(ValueError)
    raises(IndexError)
    raises(OverflowError)
    assigns(decoder)
    ensures(decoder.number_of_bits <= old(decoder.number_of_bits))


@contract("Integer.set_restricted_to_range", props=["C06", "C01"])
def _(self, minimum: IntOrMin, maximum: IntOrMax, has_extension_marker: Bool):
    # X.696 10: fixed 1/2/4/8 octets exactly for the non-extensible ranges of 10.2/10.3; otherwise length-prefixed,
    # unsigned only when the OER-visible (non-extensible) lower bound is >= 0
    requires(self.length is None and self.fmt is None)
    requires(minimum == 'MIN' or maximum == 'MAX' or minimum <= maximum)
    assigns(self)
    ensures(self.has_extension_marker == has_extension_marker)
    ensures(self.signed == oer_int_form(minimum == 'MIN' or has_extension_marker, minimum,
                                        maximum == 'MAX' or has_extension_marker, maximum)[0])
    ensures((0 if self.length is None else self.length)
            == oer_int_form(minimum == 'MIN' or has_extension_marker, minimum,
                            maximum == 'MAX' or has_extension_marker, maximum)[1])
    ensures((self.length is None) == (self.fmt is None))
    ensures(implies(self.fmt is not None,
                    self.fmt == (('>b' if self.length == 1 else '>h' if self.length == 2 else '>i' if self.length == 4 else '>q')
                                 if self.signed else
                                 ('>B' if self.length == 1 else '>H' if self.length == 2 else '>I' if self.length == 4 else '>Q'))))


@contract("Boolean.encode", props=["C06", "C01"])
def _(self, data: Bool, encoder: Obj("Encoder")):
    refines("Type.encode")
    assigns(encoder)
    ensures(encoder.number_of_bits == old(encoder.number_of_bits) + 8)
    ensures(encoder.value == 256 * old(encoder.value) + (255 if data else 0))       # X.696 9


@contract("Boolean.decode", props=["C06", "C01", "C16", "C08"])
def _(self, decoder: Obj("Decoder")) -> Bool:
    refines("Type.decode")
    raises_iff(OutOfDataError, decoder.number_of_bits < 8)
    ensures(decoder.number_of_bits == old(decoder.number_of_bits) - 8)
    ensures(result == ((decoder.value // pow2(decoder.number_of_bits)) % 256 != 0))


@contract("BitString.decode", props=["C06", "C01", "C16", "C08"])
def _(self, decoder: Obj("Decoder")):
    refines("Type.decode")
    requires(self.number_of_bits is None or self.number_of_bits >= 0)
    # X.696 13: a fixed-size BIT STRING is exactly ceil(n/8) octets, no length, no unused-bits octet
    ensures(implies(self.number_of_bits is not None,
                    decoder.number_of_bits == old(decoder.number_of_bits) - 8 * ((self.number_of_bits + 7) // 8)
                    and result[1] == self.number_of_bits))


@contract("OctetString.decode", props=["C06", "C01", "C16", "C08"])
def _(self, decoder: Obj("Decoder")):
    refines("Type.decode")
    requires(self.number_of_bytes is None or self.number_of_bytes >= 0)
    ensures(implies(self.number_of_bytes is not None,
                    decoder.number_of_bits == old(decoder.number_of_bits) - 8 * self.number_of_bytes))


@contract("ArrayType.decode", props=["C06", "C16", "C08"], for_class="*")
def _(self, decoder: Obj("Decoder")):
    refines("Type.decode")
    loop(0, invariant=[decoder.number_of_bits <= old(decoder.number_of_bits),
                       decoder.total_number_of_bits == old(decoder.total_number_of_bits)])


fields("MembersType", root_members=ObjSeq("Type"), additions=Opt(ObjSeq("Type")), optionals=ObjSeq("Type"))
fields("asn1tools/codecs/__init__.py", "BaseType", name=Str, type_name=Str, optional=Bool, default=Opt(Val))


@contract("Type.encode", abstract=True)
def _(self, data: Val, encoder: Obj("Encoder")):
    raises(EncodeError)
    raises(OverflowError)
    raises(UnicodeEncodeError)
    assigns(encoder)
    ensures(encoder.number_of_bits >= old(encoder.number_of_bits))
    # X.696: every encoding is a whole number of octets
    ensures(implies(old(encoder.number_of_bits) % 8 == 0, encoder.number_of_bits % 8 == 0))


@contract("MembersType.decode_additions", props=["C07", "C06", "C16", "C08"], for_class="any")
def _(self, decoder: Obj("Decoder")):
    # X.696 16: length determinant, unused-bits octet, presence bits; every present addition is length prefixed and an
    # addition this version does not know is skipped by exactly its announced length (re-synchronisation, C07)
    opaque("oer_ld_size", "oer_ld_val", "oer_first")
    requires(self.additions is not None)
    raises(DecodeError)
    raises(UnicodeDecodeError)
    raises(ValueError)
    raises(IndexError)
    raises(OverflowError)
    assigns(decoder)
    ensures(decoder.number_of_bits <= old(decoder.number_of_bits))
    loop(0, invariant=[decoder.number_of_bits <= old(decoder.number_of_bits),
                       decoder.total_number_of_bits == old(decoder.total_number_of_bits)])


@contract("MembersType.encode_additions", props=["C06", "C07", "C01"], for_class="any")
def _(self, data: Map('str', Val), encoder: Obj("Encoder")) -> Bool:
    requires(self.additions is not None)
    inline("MembersType.encode_member")
    raises(EncodeError)
    raises(OverflowError)
    raises(UnicodeEncodeError)
    assigns(encoder)
    # cut point where the bitmap header is written: the unused-bits octet of the presence BIT STRING is in 0..7 and
    # pads the additions to whole octets; the announced length is that of the bitmap including this octet
    at_stmt("encoder.append_non_negative_binary_integer(number_of_unused_bits, 8)",
            check=[0 <= number_of_unused_bits and number_of_unused_bits <= 7,
                   (number_of_additions + number_of_unused_bits) % 8 == 0,
                   number_of_additions == len(self.additions)])
    local(addition_encoders=ObjSeq("Encoder"))
    ensures(encoder.number_of_bits >= old(encoder.number_of_bits))
    ensures(implies(not result, encoder.number_of_bits == old(encoder.number_of_bits) and encoder.value == old(encoder.value)))
    # whole octets in, whole octets out; the encoders collected in the first loop are not tracked individually, hence:
    at_stmt("encoder += addition_encoder",
            assume=("each collected addition encoder holds a whole number of octets (it was filled by one encode_member "
                    "call on a fresh Encoder, see the abstract Type.encode clause; the list itself is not tracked)",
                    addition_encoder.number_of_bits % 8 == 0))
    ensures(implies(old(encoder.number_of_bits) % 8 == 0, encoder.number_of_bits % 8 == 0))
    loop(0, invariant=[presence_bits >= 0, presence_bits < pow2(_i0), _i0 <= len(self.additions),
                       encoder.number_of_bits == old(encoder.number_of_bits) and encoder.value == old(encoder.value)],
         use=[pow2_mono(_i0 + 1, len(self.additions))])
    loop(1, invariant=[encoder.number_of_bits >= old(encoder.number_of_bits),
                       implies(old(encoder.number_of_bits) % 8 == 0, encoder.number_of_bits % 8 == 0)])


fields("Choice", name_to_root_member=Map('str', Obj("Type")), name_to_addition=Map('str', Obj("Type")),
       tag_to_root_member=Map('bytes', Obj("Type")), tag_to_addition=Map('bytes', Obj("Type")), has_extension_marker=Bool)
formatting("Choice.format_tags", "Choice.format_names", "Enumerated.format_names", "Enumerated.format_values")


@contract("Choice.encode", props=["C06", "C12", "C01"])
def _(self, data: Tup(Str, Val), encoder: Obj("Encoder")):
    refines("Type.encode")
    # X.696 20: tag octets of the alternative, then its encoding; an extension alternative is length prefixed.
    # An unknown alternative is an encode error; an error inside the alternative is located at it (C12)
    requires(implies(data[0] in self.name_to_root_member, self.name_to_root_member[data[0]].tag is not None))
    requires(implies(data[0] in self.name_to_addition, self.name_to_addition[data[0]].tag is not None))
    raises(EncodeError, ensures=[implies(data[0] in self.name_to_root_member,
                                         located_at(exc, self.name_to_root_member[data[0]])),
                                 implies(data[0] not in self.name_to_root_member and data[0] in self.name_to_addition,
                                         located_at(exc, self.name_to_addition[data[0]]) or len(exc.location) == 0)])
    raises(OverflowError)
    raises(UnicodeEncodeError)
    assigns(encoder)
    ensures(data[0] in self.name_to_root_member or data[0] in self.name_to_addition)
    ensures(encoder.number_of_bits >= old(encoder.number_of_bits))


@contract("Choice.decode", props=["C06", "C07", "C16", "C08", "C01"])
def _(self, decoder: Obj("Decoder")) -> Tup(Opt(Str), Opt(Val)):
    # C07: an alternative this version does not know is skipped by exactly its length prefix and reported as
    # (None, None); a known alternative is never reported as unknown
    opaque("oer_tag_len", "oer_ld_size", "oer_ld_val")
    raises(DecodeError)
    raises(UnicodeDecodeError)
    raises(ValueError)
    raises(IndexError)
    raises(OverflowError)
    assigns(decoder)
    ensures(decoder.number_of_bits < old(decoder.number_of_bits))
    ensures(implies(result[0] is None,
                    result[1] is None and self.has_extension_marker
                    and decoder.number_of_bits
                    == old(decoder.number_of_bits) - 8 * oer_tag_len(decoder.value, old(decoder.number_of_bits))
                    - oer_ld_size(decoder.value, old(decoder.number_of_bits)
                                  - 8 * oer_tag_len(decoder.value, old(decoder.number_of_bits)))
                    - 8 * oer_ld_val(decoder.value, old(decoder.number_of_bits)
                                     - 8 * oer_tag_len(decoder.value, old(decoder.number_of_bits)))))


@contract("Enumerated.encode", props=["C06", "C12", "C01"])
def _(self, data: Val, encoder: Obj("Encoder")):
    refines("Type.encode")
    # X.696 11: values 0..127 in one octet; otherwise the long form (length octet with the top bit set + two's complement)
    requires(implies(data in self.data_to_value, -pow2(1000) < self.data_to_value[data] and self.data_to_value[data] < pow2(1000)))
    raises_iff(EncodeError, data not in self.data_to_value, ensures=[len(exc.location) == 0])
    assigns(encoder)
    ensures(implies(0 <= self.data_to_value[data] and self.data_to_value[data] <= 127,
                    encoder.number_of_bits == old(encoder.number_of_bits) + 8
                    and encoder.value == 256 * old(encoder.value) + self.data_to_value[data]))
    ensures(encoder.number_of_bits >= old(encoder.number_of_bits) + 8)


@contract("Enumerated.decode", props=["C06", "C07", "C16", "C08", "C01"])
def _(self, decoder: Obj("Decoder")):
    refines("Type.decode")
    # X.696 11: exactly one octet, or 1 + n octets in the long form -- whether or not this version knows the value
    # (C07: an unknown value of an extensible type is skipped whole, so what follows is read from the right place)
    use(clear_top_p(decoder.value, decoder.number_of_bits))
    use(octet_top(decoder.value, decoder.number_of_bits))
    ensures(decoder.number_of_bits == old(decoder.number_of_bits) - oer_enum_size(old(decoder.value), old(decoder.number_of_bits)))
    ensures(decoder.number_of_bits < old(decoder.number_of_bits))


invariant("Integer", (self.length is None) == (self.fmt is None),
          implies(self.fmt is not None,
                  (self.length == 1 or self.length == 2 or self.length == 4 or self.length == 8)
                  and self.fmt == (('>b' if self.length == 1 else '>h' if self.length == 2 else '>i' if self.length == 4 else '>q')
                                   if self.signed else
                                   ('>B' if self.length == 1 else '>H' if self.length == 2 else '>I' if self.length == 4 else '>Q'))))
fixup("Integer", "self.length = [None, 1, 2, 4, 8][abs(self.length or 0) % 5]\nself.fmt = None if self.length is None else {1: '>b', 2: '>h', 4: '>i', 8: '>q'}[self.length] if self.signed else {1: '>B', 2: '>H', 4: '>I', 8: '>Q'}[self.length]")


@contract("Integer.encode", props=["C06", "C01", "C12"])
def _(self, data: Int, encoder: Obj("Encoder")):
    refines("Type.encode")
    # X.696 10: a fixed-size form is exactly `length` octets holding the value in big-endian (two's complement when
    # signed); otherwise a length-prefixed form, unsigned only without a negative lower bound
    # the value is inside the range the fixed-size form was chosen for: established by check_constraints (C11)
    requires(implies(self.fmt is not None and self.signed,
                     (self.length == 1 and -128 <= data and data <= 127)
                     or (self.length == 2 and -32768 <= data and data <= 32767)
                     or (self.length == 4 and -2147483648 <= data and data <= 2147483647)
                     or (self.length == 8 and -9223372036854775808 <= data and data <= 9223372036854775807)))
    requires(implies(self.fmt is not None and not self.signed,
                     0 <= data and ((self.length == 1 and data <= 255) or (self.length == 2 and data <= 65535)
                                    or (self.length == 4 and data <= 4294967295)
                                    or (self.length == 8 and data <= 18446744073709551615))))
    requires(implies(self.fmt is None and not self.signed, data >= 0))
    requires(-pow2(1000) < data and data < pow2(1000))
    raises(EncodeError, when=self.fmt is None)      # only the length-prefixed forms can refuse (a length of 128 octets or more)
    assigns(encoder)
    ensures(implies(self.fmt is not None,
                    encoder.number_of_bits == old(encoder.number_of_bits) + 8 * self.length
                    and encoder.value == old(encoder.value) * pow2(8 * self.length) + be_val(be_bytes(data, self.length))))
    ensures(encoder.number_of_bits > old(encoder.number_of_bits))


@contract("Integer.decode", props=["C06", "C01", "C16", "C08"])
def _(self, decoder: Obj("Decoder")) -> Int:
    refines("Type.decode")
    opaque("oer_ld_size", "oer_ld_val", "oer_first")
    # a fixed-size form consumes exactly `length` octets; truncation is OutOfDataError (C16), never struct.error
    ensures(implies(self.fmt is not None, decoder.number_of_bits == old(decoder.number_of_bits) - 8 * self.length))
    ensures(decoder.number_of_bits < old(decoder.number_of_bits))


@contract("MembersType.encode_member", props=["C12", "C01", "C06"], for_class="any")
def _(self, member: Obj("Type"), data: Map('str', Val), encoder: Obj("Encoder"), encode_default: Bool):
    # X.696 16: a component equal to its DEFAULT is not encoded (unless it is an extension addition); absent
    # OPTIONAL/DEFAULT components add nothing; a missing mandatory component is an encode error; an error inside the
    # component is located at it (C12)
    raises(EncodeError, ensures=[implies(member.name in data, located_at(exc, member))])
    raises(OverflowError)
    raises(UnicodeEncodeError)
    assigns(encoder)
    ensures(member.name in data or member.optional or member.default is not None)
    ensures(encoder.number_of_bits >= old(encoder.number_of_bits))
    ensures(implies(old(encoder.number_of_bits) % 8 == 0, encoder.number_of_bits % 8 == 0))
    ensures(implies(member.name not in data,
                    encoder.number_of_bits == old(encoder.number_of_bits) and encoder.value == old(encoder.value)))
    ensures(implies(member.name in data and member.default is not None and not encode_default
                    and is_dflt(ident(member), data[member.name]),
                    encoder.number_of_bits == old(encoder.number_of_bits) and encoder.value == old(encoder.value)))


@contract("MembersType.encode_root", props=["C06", "C01", "C12"], for_class="any")
def _(self, data: Map('str', Val), encoder: Obj("Encoder")):
    # X.696 16.2: one preamble bit per OPTIONAL/DEFAULT root component, padded to the octet boundary, then the
    # components in order
    raises(EncodeError)
    raises(OverflowError)
    raises(UnicodeEncodeError)
    assigns(encoder)
    ghost_init(g_pre=0)
    at_stmt("@loop1", set=dict(g_pre=encoder.number_of_bits))
    ensures(g_pre % 8 == 0 and g_pre >= old(encoder.number_of_bits) + len(self.optionals)
            and g_pre < old(encoder.number_of_bits) + len(self.optionals) + 8)
    ensures(encoder.number_of_bits >= g_pre and encoder.number_of_bits % 8 == 0)
    loop(0, invariant=[encoder.number_of_bits == old(encoder.number_of_bits) + _i0, _i0 <= len(self.optionals)])
    loop(1, invariant=[encoder.number_of_bits >= g_pre, g_pre % 8 == 0, encoder.number_of_bits % 8 == 0,
                       g_pre >= old(encoder.number_of_bits) + len(self.optionals),
                       g_pre < old(encoder.number_of_bits) + len(self.optionals) + 8])


@contract("OctetString.encode", props=["C06", "C01"])
def _(self, data: Bytes, encoder: Obj("Encoder")):
    refines("Type.encode")
    # X.696 14: a fixed size is just the octets; otherwise a length determinant, then the octets
    requires(self.number_of_bytes is None or len(data) == self.number_of_bytes)      # established by check_constraints (C11)
    raises(EncodeError, when=self.number_of_bytes is None and need8(len(data)) > 127)
    assigns(encoder)
    ensures(implies(self.number_of_bytes is not None,
                    encoder.number_of_bits == old(encoder.number_of_bits) + 8 * len(data)
                    and encoder.value == old(encoder.value) * pow2(8 * len(data)) + be_val(list(data))))
    ensures(implies(self.number_of_bytes is None and len(data) < 128,
                    encoder.number_of_bits == old(encoder.number_of_bits) + 8 + 8 * len(data)
                    and encoder.value == (256 * old(encoder.value) + len(data)) * pow2(8 * len(data)) + be_val(list(data))))


@contract("BitString.encode", props=["C06", "C01"])
def _(self, data: Tup(Bytes, Nat), encoder: Obj("Encoder")):
    refines("Type.encode")
    # X.696 13: a fixed size: ceil(n / 8) octets, unused bits zero; otherwise length determinant, an octet with the
    # number of unused bits, then the octets
    requires(data[1] <= 8 * len(data[0]))
    requires(self.number_of_bits is None or data[1] == self.number_of_bits)            # established by check_constraints (C11)
    raises(EncodeError, when=self.number_of_bits is None and need8((data[1] + 7) // 8 + 1) > 127)
    assigns(encoder)
    ensures(implies(self.number_of_bits is not None,
                    encoder.number_of_bits == old(encoder.number_of_bits) + 8 * ((data[1] + 7) // 8)))
    ensures(implies(self.number_of_bits is None and (data[1] + 7) // 8 + 1 < 128,
                    encoder.number_of_bits == old(encoder.number_of_bits) + 16 + 8 * ((data[1] + 7) // 8)))
    # (that the unused bits of the last octet are cleared is proved on ber.BitString.encode_content, the same masking
    # expression; here it needs sequence reasoning about data[:n] + [last] the solver did not do in time)


@contract("Encoder.as_bytearray", props=["C06", "C01"])
def _(self) -> ByteArray:
    # the octets of a whole-octet bit string (assumed builtin contract: hex80_axiom)
    requires(self.number_of_bits % 8 == 0)
    use(hex80_axiom(self.value, self.number_of_bits // 8))
    ensures(len(result) == self.number_of_bits // 8 and be_val(list(result)) == self.value)


fields("CompiledType", _type=Obj("Type"))


@contract("CompiledType.encode", props=["C06", "C12", "C18", "C01"])
def _(self, data: Val) -> ByteArray:
    # a fresh Encoder per call (C18); an encode error carries the path from the top-level type (C12); the result is a
    # whole number of octets (X.696)
    raises(EncodeError, ensures=[located_at(exc, self._type)])
    raises(OverflowError)
    raises(UnicodeEncodeError)


@contract("MembersType.encode", props=["C06", "C01", "C12"], for_class="any")
def _(self, data: Map('str', Val), encoder: Obj("Encoder")):
    refines("Type.encode")
    # X.696 16: extension bit (when extensible), preamble padded to an octet, root components, then the additions;
    # the result is a whole number of octets whatever the position it started at
    requires(self.additions is None or len(self.additions) < 1000)
    ensures(encoder.number_of_bits % 8 == 0)


fields("KnownMultiplierStringType", number_of_bytes=Opt(Nat), ENCODING=Str)


@contract("KnownMultiplierStringType.encode", props=["C06", "C01"], for_class="*")
def _(self, data: Str, encoder: Obj("Encoder")):
    refines("Type.encode")
    # X.696 15: a fixed-size string is written without a length determinant, so the decoder will read back exactly
    # number_of_bytes octets: the text must encode to exactly that many octets.  For UTF8String (not a known-multiplier
    # type) that fails for multi-byte characters: known finding F27.
    requires(self.number_of_bytes is None or len(data) == self.number_of_bytes)   # SIZE counts characters: check_constraints (C11)
    known("F27", self.number_of_bytes is not None and len(text_encode(data, self.ENCODING)) != len(data))
    raises(EncodeError, when=self.number_of_bytes is None)
    ensures(implies(self.number_of_bytes is not None,
                    encoder.number_of_bits == old(encoder.number_of_bits) + 8 * self.number_of_bytes))
    ensures(implies(self.number_of_bytes is None and len(text_encode(data, self.ENCODING)) < 128,
                    encoder.number_of_bits == old(encoder.number_of_bits) + 8 + 8 * len(text_encode(data, self.ENCODING))))


@contract("KnownMultiplierStringType.decode", props=["C06", "C01", "C16", "C08"], for_class="*")
def _(self, decoder: Obj("Decoder")) -> Str:
    refines("Type.decode")
    opaque("oer_ld_size", "oer_ld_val", "oer_first")
    ensures(implies(self.number_of_bytes is not None,
                    decoder.number_of_bits == old(decoder.number_of_bits) - 8 * self.number_of_bytes))


@contract("ArrayType.encode", props=["C06", "C01", "C12"], for_class="any")
def _(self, data: ValSeq, encoder: Obj("Encoder")):
    refines("Type.encode")
    # X.696 17: the number of elements as a length-prefixed unsigned integer, then the elements in order
    ghost_init(g_hdr=0)
    at_stmt("@loop0", set=dict(g_hdr=encoder.number_of_bits))
    ensures(g_hdr > old(encoder.number_of_bits) and (g_hdr - old(encoder.number_of_bits)) % 8 == 0)
    loop(0, invariant=[encoder.number_of_bits >= g_hdr, g_hdr > old(encoder.number_of_bits),
                       (g_hdr - old(encoder.number_of_bits)) % 8 == 0,
                       implies(old(encoder.number_of_bits) % 8 == 0, encoder.number_of_bits % 8 == 0)])
