FILE = "asn1tools/codecs/ber.py"

fields("asn1tools/codecs/__init__.py", "BaseType", name=Str, type_name=Str, optional=Bool, default=Opt(Val))
fields("Type", tag=Opt(ByteArray), tag_len=Opt(Int))
invariant("Type", (self.tag is None) == (self.tag_len is None),
          implies(self.tag is not None, self.tag_len == len(self.tag) and self.tag_len >= 1))
fixup("Type", "if self.tag is not None and len(self.tag) == 0: self.tag = bytearray([2])\nself.tag_len = None if self.tag is None else len(self.tag)")
fields("PrimitiveOrConstructedType", constructed_tag=ByteArray, segment=Obj("Type"))
fixup("PrimitiveOrConstructedType", "self.tag = self.tag if self.tag is not None else bytearray([4])\nself.tag_len = len(self.tag)\nself.constructed_tag = bytearray(self.tag)\nself.constructed_tag[0] |= 0x20\nself.tag[0] &= 0xdf")
invariant("PrimitiveOrConstructedType", self.tag is not None, len(self.constructed_tag) == len(self.tag),
          self.constructed_tag != self.tag)
fields("ArrayType", element_type=Obj("Type"))
fields("StringType", ENCODING=Str)
fields("Choice", has_extension_marker=Bool, tag_to_member=Map('bytes', Obj("Type")), name_to_member=Map('str', Obj("Type")))
fields("Enumerated", has_extension_marker=Bool, value_to_data=Map('int', Val), data_to_value=Map('val', Int))
fields("ExplicitTag", inner=Obj("Type"))
fields("Recursive", inner=Obj("Type"))
fields("CompiledType", _type=Obj("Type"))
fields("BitString", has_named_bits=Bool)


formatting("asn1tools/codecs/__init__.py::format_bytes", "asn1tools/codecs/__init__.py::format_or",
           "asn1tools/codecs/__init__.py::BaseType.type_label", "Type.format_tag", "Choice.format_tag",
           "Choice.format_names", "Enumerated.format_names", "Enumerated.format_values")

# ---------------------------------------------------------------------------------------------
# abstract contracts (callers are checked against these; every override refines them)

@contract("Type.decode", abstract=True)
def _(self, data: ByteArray, offset: Nat, values: Opt(Val)) -> Tup(Union(Const("asn1tools/codecs/ber.py", "TAG_MISMATCH"), Val), Int):
    # unconditional half of the decode contract (DESIGN appendix C): progress or TAG_MISMATCH at the same offset,
    # never past the end of the data, only the library's decode errors
    requires(offset <= len(data))
    raises(DecodeError)
    raises(UnicodeDecodeError)
    raises(ValueError)
    raises(IndexError)
    raises(TypeError)                # primitive string form with an indefinite length (invalid BER)
    ensures(implies(result[0] is TAG_MISMATCH, result[1] == offset))
    ensures(implies(result[0] is not TAG_MISMATCH, result[1] > offset and result[1] <= len(data)))
    ensures((result[0] is TAG_MISMATCH) == (not accepts(ident(self), list(data), offset)))


@contract("StandardDecodeMixin.decode_content", abstract=True)
def _(self, data: ByteArray, offset: Nat, length: Opt(Int)) -> Tup(Val, Int):
    requires(offset <= len(data))
    requires(length is None or (length >= 0 and offset + length <= len(data)))
    raises(DecodeError)
    # foreign exceptions possible on malformed *contents* (never on a truncated outer TLV, see C16):
    raises(UnicodeDecodeError)       # character strings / time types: bytes outside the character set
    raises(ValueError)               # time types: strptime
    raises(IndexError)               # REAL / OBJECT IDENTIFIER contents cut inside the TLV
    raises(TypeError)                # a nested primitive string with an indefinite length (invalid BER)
    ensures(result[1] >= offset and result[1] <= len(data))
    ensures(result[0] is not TAG_MISMATCH)


# ---------------------------------------------------------------------------------------------
@contract("StandardDecodeMixin.decode", props=["C08", "C16", "C04", "C15"], for_class="*")
def _(self, data: ByteArray, offset: Nat, values: Opt(Val)):
    refines("Type.decode")
    requires(self.tag is not None)
    assumes("definition of the ghost predicate accepts() for single-tag types",
            accepts(ident(self), list(data), offset) == (data[offset:offset + self.tag_len] == self.tag))
    # tag match is decided on exactly tag_len octets (tail independence)
    ensures((result[0] is TAG_MISMATCH) == (data[offset:offset + self.tag_len] != self.tag))


@contract("check_decode_error", props=["C08", "C16", "C04"])
def _(asn_type: Obj("Type"), decoded_value: Union(Const("asn1tools/codecs/ber.py", "TAG_MISMATCH"), Val),
      data: ByteArray, offset: Nat):
    # a TAG_MISMATCH result never leaves a container silently: it is turned into a decode error
    inline("DecodeTagError.__init__")
    raises(DecodeTagError, when=decoded_value is TAG_MISMATCH)
    raises(OutOfByteDataError, when=decoded_value is TAG_MISMATCH)
    ensures(decoded_value is not TAG_MISMATCH)


@contract("Boolean.decode_content", props=["C08", "C16", "C04", "C01"])
def _(self, data: ByteArray, offset: Nat, length: Opt(Int)) -> Tup(Bool, Int):
    refines("StandardDecodeMixin.decode_content")
    requires(length is not None)
    raises_iff(DecodeError, length != 1)
    ensures(result == (data[offset] != 0, offset + 1))      # X.690 8.2: any non-zero octet is TRUE


@contract("Integer.decode_content", props=["C08", "C16", "C04", "C01"])
def _(self, data: ByteArray, offset: Nat, length: Opt(Int)) -> Tup(Int, Int):
    refines("StandardDecodeMixin.decode_content")
    requires(length is not None)
    ensures(result == (tc_val(list(data[offset:offset + length])), offset + length))


@contract("Null.decode_content", props=["C08", "C16", "C04", "C01"])
def _(self, data: ByteArray, offset: Nat, length: Opt(Int)) -> Tup(NoneT, Int):
    refines("StandardDecodeMixin.decode_content")
    requires(length is not None)
    ensures(result == (None, offset))


@contract("ArrayType.decode_content", props=["C08", "C16", "C04", "C15"], for_class="*")
def _(self, data: ByteArray, offset: Nat, length: Opt(Int)):
    refines("StandardDecodeMixin.decode_content")
    # C15 (tail independence): a definite-length array ends where its last element ended (or at its start when empty);
    # the end-of-contents test is applied to indefinite-length arrays only, so bytes after the array are never inspected
    at_stmt("break", check=[length is None or (offset - start_offset >= length and offset == at_head(offset))])
    loop(0, invariant=[offset >= start_offset, offset <= len(data)], decreases=len(data) - offset)


@contract("PrimitiveOrConstructedType.decode_constructed_contents", props=["C08", "C16", "C04"], for_class="*")
def _(self, data: ByteArray, offset: Nat, length: Opt(Int)):
    refines("StandardDecodeMixin.decode_content")
    use_abstract("decode_constructed_segments")
    # X.690 8.1.3/8.1.5: definite-length contents end exactly length octets after their start -- an empty constructed
    # string (length 0) has no segment and consumes nothing; the end-of-contents octets are looked for in the
    # indefinite form only, so octets after a definite-length value are never inspected (tail independence)
    at_stmt("break", check=[length is None or (offset - old(offset) >= length and offset == at_head(offset))])
    ensures(implies(length is not None, result[1] >= offset + length))
    ensures(implies(length is not None and length <= 0, result[1] == offset))
    loop(0, invariant=[offset >= old(offset), offset <= len(data),
                       implies(length is not None and length <= 0, offset == old(offset))],
         decreases=len(data) - offset)


@contract("PrimitiveOrConstructedType.decode_primitive_contents", abstract=True)
def _(self, data: ByteArray, offset: Nat, length: Nat) -> Val:
    requires(offset + length <= len(data))
    raises(DecodeError)
    raises(UnicodeDecodeError)        # character strings: malformed text (foreign exception, listed)


@contract("PrimitiveOrConstructedType.decode_constructed_segments", abstract=True)
def _(self, segments: Val) -> Val:
    raises(DecodeError)
    raises(UnicodeDecodeError)


@contract("PrimitiveOrConstructedType.decode", props=["C08", "C16", "C04", "C15"], for_class="*")
def _(self, data: ByteArray, start_offset: Nat, values: Opt(Val)):
    requires(start_offset <= len(data))
    assumes("definition of the ghost predicate accepts() for primitive-or-constructed types",
            accepts(ident(self), list(data), start_offset) == (data[start_offset:start_offset + self.tag_len] == self.tag
                                                                 or data[start_offset:start_offset + self.tag_len] == self.constructed_tag))
    ensures((result[0] is TAG_MISMATCH) == (not accepts(ident(self), list(data), start_offset)))
    raises(DecodeError)
    raises(UnicodeDecodeError)
    raises(ValueError)
    raises(IndexError)
    raises(TypeError)            # primitive string form with an indefinite length (invalid BER), possibly nested
    ensures(implies(result[0] is TAG_MISMATCH, result[1] == start_offset))
    ensures(implies(result[0] is not TAG_MISMATCH, result[1] > start_offset and result[1] <= len(data)))
    # X.690 8.7/8.21: both the primitive and the constructed form of the tag are accepted
    ensures((result[0] is TAG_MISMATCH) == (data[start_offset:start_offset + self.tag_len] != self.tag
                                            and data[start_offset:start_offset + self.tag_len] != self.constructed_tag))


@contract("Enumerated.decode_content", props=["C08", "C16", "C04", "C07", "C01"])
def _(self, data: ByteArray, offset: Nat, length: Opt(Int)):
    refines("StandardDecodeMixin.decode_content")
    requires(length is not None)
    # an unknown value is an error unless the type is extensible, then it is reported as absent (None)
    raises_iff(DecodeError, tc_val(list(data[offset:offset + length])) not in self.value_to_data
               and not self.has_extension_marker)
    ensures(result[1] == offset + length)
    ensures(implies(tc_val(list(data[offset:offset + length])) in self.value_to_data,
                    result[0] == self.value_to_data[tc_val(list(data[offset:offset + length]))]))
    ensures(implies(tc_val(list(data[offset:offset + length])) not in self.value_to_data, result[0] is None))


@contract("ExplicitTag.decode_content", props=["C08", "C16", "C04", "C15"])
def _(self, data: ByteArray, offset: Nat, length: Opt(Int)):
    refines("StandardDecodeMixin.decode_content")


@contract("Choice.decode", props=["C08", "C16", "C04", "C07"])
def _(self, data: ByteArray, offset: Nat, values: Opt(Val)):
    refines("Type.decode")
    assumes("Choice.tag_to_member is well formed: each tag maps to a member that recognises it (established by "
            "Choice.add_tags at compile time; not proved)",
            implies(tag_complete(data, offset) and tag_end(data, offset) < len(data)
                    and bytes(data[offset:tag_end(data, offset)]) in self.tag_to_member,
                    accepts(ident(self.tag_to_member[bytes(data[offset:tag_end(data, offset)])]), list(data), offset)))
    assumes("definition of the ghost predicate accepts() for CHOICE",
            accepts(ident(self), list(data), offset) == (bytes(data[offset:tag_end(data, offset)]) in self.tag_to_member
                                                         or self.has_extension_marker))
    # C07: an unknown alternative of an extensible CHOICE is skipped by exactly its TLV
    ensures(implies(bytes(data[offset:tag_end(data, offset)]) not in self.tag_to_member and self.has_extension_marker,
                    result[0] == (None, None) and result[1] == tlv_end(data, offset)))
    ensures(implies(bytes(data[offset:tag_end(data, offset)]) not in self.tag_to_member
                    and not self.has_extension_marker, result[0] is TAG_MISMATCH))


@contract("Any.decode", props=["C08", "C16", "C04"])
def _(self, data: ByteArray, offset: Nat, values: Opt(Val)):
    refines("Type.decode")
    assumes("definition of the ghost predicate accepts() for ANY", accepts(ident(self), list(data), offset))
    ensures(result == (data[offset:tlv_end(data, offset)], tlv_end(data, offset)))


@contract("Recursive.decode", props=["C08", "C16", "C04"])
def _(self, data: ByteArray, offset: Nat, values: Opt(Val)):
    refines("Type.decode")
    assumes("definition of the ghost predicate accepts() for a recursive reference: that of its inner type",
            accepts(ident(self), list(data), offset) == accepts(ident(self.inner), list(data), offset))


@contract("CompiledType.decode_with_length", props=["C15", "C16", "C08"])
def _(self, data: Bytes):
    # the value and the offset just after it; a TAG_MISMATCH never leaves the library as a value
    raises(DecodeError)
    raises(UnicodeDecodeError)
    raises(ValueError)
    raises(IndexError)
    raises(TypeError)
    ensures(result[0] is not TAG_MISMATCH and result[1] > 0 and result[1] <= len(data))


@contract("asn1tools/codecs/__init__.py", "ErrorWithLocation.add_location", props=["C12", "C08", "C16", "C04"])
def _(self, element: Obj("asn1tools/codecs/__init__.py", "BaseType")):
    # appends the element unless it is the one added last (no_error_location elements are skipped)
    assigns(self)
    ensures(len(self.location) >= len(old(self.location)))
    ensures(self.location[:len(old(self.location))] == old(self.location))
    ensures(implies(len(old(self.location)) == 0 or old(self.location)[len(old(self.location)) - 1] != ident(element),
                    self.location == old(self.location) + [ident(element)]))


@contract("decode_object_identifier_subidentifier", props=["C01", "C08", "C04"])
def _(data: ByteArray, offset: Nat) -> Tup(Int, Int):
    # base-128 digits, most significant first, bit 8 set on all but the last (X.690 8.19.2)
    requires(offset <= len(data))
    raises_iff(IndexError, not tag_cont_complete(data, offset))
    ensures(result[1] == tag_cont_end(data, offset) and result[1] > offset and result[1] <= len(data))
    ensures(result[0] == b128_val(data, offset, tag_cont_end(data, offset), 0) and result[0] >= 0)
    loop(0, invariant=[offset >= old(offset), offset <= len(data), decoded >= 0, decoded % 128 == 0,
                       tag_cont_end(data, offset) == tag_cont_end(data, old(offset)),
                       tag_cont_complete(data, offset) == tag_cont_complete(data, old(offset)),
                       b128_val(data, offset, tag_cont_end(data, old(offset)), decoded // 128)
                       == b128_val(data, old(offset), tag_cont_end(data, old(offset)), 0)],
         decreases=len(data) - offset)


@contract("decode_object_identifier", props=["C01", "C08", "C04"])
def _(data: ByteArray, offset: Nat, end_offset: Int) -> Str:
    requires(offset <= len(data))
    raises(IndexError)
    # X.690 8.19.4: how the first subidentifier splits into the first two arcs
    at_stmt("@loop0", check=[decoded == oid_first_arcs(b128_val(data, old(offset), tag_cont_end(data, old(offset)), 0))])
    loop(0, invariant=[offset >= 0, offset <= len(data)], decreases=len(data) - offset)


@contract("encode_object_identifier_subidentifier", props=["C01", "C03"])
def _(subidentifier: Nat) -> IntList:
    # minimal base-128 digits, most significant first, bit 8 set on all but the last
    ensures(result == rev([subidentifier % 128] + le128(subidentifier // 128)))
    loop(0, invariant=[subidentifier >= 0,
                       encoded + le128(subidentifier) == [old(subidentifier) % 128] + le128(old(subidentifier) // 128)],
         decreases=subidentifier)


fields("MembersType", root_members=ObjSeq("Type"), additions=Opt(AbsList))
formatting("asn1tools/codecs/__init__.py::BaseType.__repr__")


@contract("asn1tools/codecs/__init__.py", "BaseType.get_default", abstract=True)
def _(self) -> Val:
    ensures(True)


@contract("MembersType.decode_members", props=["C08", "C16", "C04", "C15", "C07"], for_class="any")
def _(self, members: ObjSeq("Type"), data: ByteArray, values: AbsDict, offset: Nat, end_offset: Opt(Int),
      ignore_missing: Bool) -> Tup(Int, Bool):
    # unconditional half: the out-of-order member loop terminates (an outer round either decodes a member, which
    # consumes at least one octet, or ends), never reads past the data, and raises only the listed errors
    requires(offset <= len(data))
    requires(end_offset is None or end_offset <= len(data))
    inline("MissingMandatoryFieldError.__init__", "DecodeTagError.__init__", "DecodeError.__init__",
           "ErrorWithLocation.__init__")
    local(remaining_members=ObjSeq("Type"))
    raises(DecodeError)
    raises(UnicodeDecodeError)
    raises(ValueError)
    raises(IndexError)
    raises(TypeError)
    assigns(values)
    ensures(result[0] >= offset and result[0] <= len(data))
    # "out of data" means the end of the (definite) contents was reached or passed
    ensures(implies(result[1] and end_offset is not None, result[0] >= end_offset))
    loop(0, invariant=[offset >= old(offset), offset <= len(data)], decreases=len(data) - offset)
    # C04 (members in any order): in every round each remaining member is either decoded (its value stored) or kept
    # for the next round -- none is dropped.  g_kept / g_done are ghost counters of those two events.
    ghost_init(g_kept=0, g_done=0)
    at_stmt("undecoded_members.append(member)", set=dict(g_kept=g_kept + 1))
    at_stmt("values[member.name] = value", set=dict(g_done=g_done + 1))
    loop(1, invariant=[offset >= at_head(offset, 0), offset <= len(data),
                       implies(decode_success, offset > at_head(offset, 0)),
                       implies(out_of_data and end_offset is not None, offset >= end_offset),
                       g_kept + g_done == at_entry(g_kept + g_done, 1) + _i1])
    loop(2, invariant=[offset <= len(data)])


@contract("flatten", abstract=True)
def _(l: Val) -> ObjSeq("Type"):
    # list of the member types of the additions (groups flattened); assumed: pure list helper, not verified
    ensures(True)


@contract("MembersType.decode_content", props=["C08", "C16", "C04", "C15", "C07"], for_class="any")
def _(self, data: ByteArray, offset: Nat, length: Opt(Int)):
    refines("StandardDecodeMixin.decode_content")
    inline("NoEndOfContentsTagError.__init__", "DecodeError.__init__", "ErrorWithLocation.__init__")
    # C07: with a definite length the whole announced contents are consumed, whatever trailing additions this
    # version does not know (unknown TLVs are skipped via end_offset)
    ensures(implies(length is not None, result[1] == offset + length or result[1] >= offset + length))


@contract("OctetString.decode_primitive_contents", props=["C04", "C01", "C08"])
def _(self, data: ByteArray, offset: Nat, length: Nat) -> Bytes:
    ensures(result == bytes(data[offset:offset + length]))


@contract("BitString.decode_primitive_contents", props=["C04", "C01", "C08"])
def _(self, data: ByteArray, offset: Nat, length: Nat) -> Tup(Bytes, Int):
    # X.690 8.6.2: initial octet = number of unused bits of the last octet
    requires(offset + length <= len(data))
    raises_iff(IndexError, offset >= len(data))
    ensures(result[1] == 8 * (length - 1) - data[offset] and result[0] == data[offset + 1:offset + length])


@contract("StringType.decode_constructed_segments", props=["C04", "C01"], for_class="*", bounded="segment lists of length 0..3")
def _(self, segments: ListOf(Bytes, 3)) -> Str:
    # X.690 8.21.6: the value is the concatenation of the segments' octets, decoded as a whole (a character may be
    # split across segments).  BOUNDED in the number of segments (0..3), unbounded in their contents.
    raises_iff(UnicodeDecodeError, not decodable(concat_all(segments), self.ENCODING))
    native(examples=[{'segments': [b'\xc3', b'\xa9']}, {'segments': [b'a\xe2\x82', b'\xac', b'b']},
                     {'segments': [b'\x00', b'\xe9']}, {'segments': [b'\x00\x00\x00', b'\xe9']}])
    ensures(result == text_decode(concat_all(segments), self.ENCODING))


@contract("Choice.get_member_tags", props=["C04", "C01"], label="string-like")
def _(self, member: Obj("PrimitiveOrConstructedType")):
    # X.690 8.7/8.21/8.6: every string-like alternative (OCTET STRING, BIT STRING, the character strings) may arrive in
    # primitive or constructed form, so *both* identifier octets select it in CHOICE dispatch -- for every class
    # derived from PrimitiveOrConstructedType, present or future (this is what makes the tag_to_member assumption of
    # Choice.decode hold for these alternatives)
    ensures(len(result) == 2 and list(result[0]) == list(member.tag) and list(result[1]) == list(member.constructed_tag))
