FILE = "asn1tools/codecs/constraints_checker.py"

fields("Type", name=Str, minimum=IntOrMin, maximum=IntOrMax)
fields("String", permitted_alphabet=Opt(Str))
fields("List", element_type=Obj("Type"))
fields("Dict", members=ObjSeq("Type"))
fields("Choice", name_to_member=Map('str', Obj("Type")), has_extension_marker=Bool)
fields("Recursive", inner=Obj("Type"))
fields("CompiledType", _type=Obj("Type"))
fields("asn1tools/codecs/__init__.py", "ConstraintsError", message=Val, location=IdList)
formatting("Choice.format_names")


@contract("Type.encode", abstract=True)
def _(self, data: Val):
    # C11: a constraints error is raised exactly when the value violates a declared constraint
    raises_iff(ConstraintsError, not cc_ok(ident(self), data))


@contract("Type.set_range", props=["C11"])
def _(self, minimum: Union(Int, Lit('MIN'), NoneT), maximum: Union(Int, Lit('MAX'), NoneT), has_extension_marker: Bool):
    # an extensible constraint is not enforced (the inherited bounds stay); absent bounds are open
    assigns(self)
    ensures(implies(has_extension_marker, self.minimum == old(self.minimum) and self.maximum == old(self.maximum)))
    ensures(implies(not has_extension_marker,
                    self.minimum == ('MIN' if minimum is None else minimum)
                    and self.maximum == ('MAX' if maximum is None else maximum)))


@contract("Type.is_in_range", props=["C11"])
def _(self, value: Int) -> Bool:
    inline("Type.has_lower_bound", "Type.has_upper_bound")
    ensures(result == admits(self.minimum, self.maximum, value))


@contract("Integer.encode", props=["C11", "C12"])
def _(self, data: Int):
    raises_iff(ConstraintsError, not admits(self.minimum, self.maximum, data), ensures=[len(exc.location) == 0])


@contract("BitString.encode", props=["C11", "C12"])
def _(self, data: Tup(Bytes, Int)):
    raises_iff(ConstraintsError, not admits(self.minimum, self.maximum, data[1]), ensures=[len(exc.location) == 0])


@contract("Bytes.encode", props=["C11", "C12"])
def _(self, data: Bytes):
    raises_iff(ConstraintsError, not admits(self.minimum, self.maximum, len(data)), ensures=[len(exc.location) == 0])


@contract("String.encode", props=["C11", "C12"], for_class="any")
def _(self, data: Str):
    raises_iff(ConstraintsError, not admits(self.minimum, self.maximum, len(data))
               or (self.permitted_alphabet is not None and not all_in(data, self.permitted_alphabet)),
               ensures=[len(exc.location) == 0])
    loop(0, invariant=[all_in(data[:_i0], self.permitted_alphabet)],
         use=[all_in_at(data, _i0, self.permitted_alphabet)])


@contract("List.encode", props=["C11", "C12"])
def _(self, data: ValSeq):
    # size violated, or some element violates its own constraints: every element is visited
    raises_iff(ConstraintsError, not admits(self.minimum, self.maximum, len(data))
               or exists(lambda j: 0 <= j and j < len(data) and not cc_ok(ident(self.element_type), data[j])))
    loop(0, invariant=[forall(lambda j: implies(0 <= j and j < _i0, cc_ok(ident(self.element_type), data[j])))])


@contract("Choice.encode", props=["C11", "C12"])
def _(self, data: Tup(Str, Val)):
    # known alternative: its own constraints; unknown alternative: accepted iff the CHOICE is extensible
    raises_iff(ConstraintsError,
               (data[0] in self.name_to_member and not cc_ok(ident(self.name_to_member[data[0]]), data[1]))
               or (data[0] not in self.name_to_member and not self.has_extension_marker),
               ensures=[implies(data[0] in self.name_to_member, located_at(exc, self.name_to_member[data[0]]))])


@contract("Recursive.encode", props=["C11", "C12"])
def _(self, data: Val):
    raises_iff(ConstraintsError, not cc_ok(ident(self.inner), data))


@contract("CompiledType.encode", props=["C11", "C12"])
def _(self, data: Val):
    raises_iff(ConstraintsError, not cc_ok(ident(self._type), data), ensures=[located_at(exc, self._type)])


@contract("Type.has_lower_bound", props=["C11"])
def _(self) -> Bool:
    ensures(result == (self.minimum != 'MIN'))


@contract("Type.has_upper_bound", props=["C11"])
def _(self) -> Bool:
    ensures(result == (self.maximum != 'MAX'))


@contract("Dict.encode", props=["C11", "C12"])
def _(self, data: Map('str', Val)):
    # SEQUENCE / SET: every member that is present in the value is checked; the first violation is located at the member
    raises_iff(ConstraintsError,
               exists(lambda j: 0 <= j and j < len(self.members) and self.members[j].name in data
                      and not cc_ok(ident(self.members[j]), data[self.members[j].name])),
               ensures=[len(exc.location) >= 1])
    loop(0, invariant=[forall(lambda j: implies(0 <= j and j < _i0 and self.members[j].name in data,
                                                cc_ok(ident(self.members[j]), data[self.members[j].name])))])
