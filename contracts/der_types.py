FILE = "asn1tools/codecs/der.py"

fields("ArrayType", element_type=Obj("asn1tools/codecs/ber.py", "Type"))
fields("BitString", has_named_bits=Bool)


@contract("ArrayType.decode_content", props=["C08", "C16"], for_class="*")
def _(self, data: ByteArray, offset: Nat, length: Opt(Int)):
    refines("asn1tools/codecs/ber.py::StandardDecodeMixin.decode_content")
    requires(length is not None)
    loop(0, invariant=[offset >= start_offset, offset <= len(data)], decreases=len(data) - offset)


@contract("Integer.decode_content", props=["C08", "C16", "C01"])
def _(self, data: ByteArray, offset: Nat, length: Opt(Int)) -> Tup(Int, Int):
    refines("asn1tools/codecs/ber.py::StandardDecodeMixin.decode_content")
    requires(length is not None)
    ensures(result == (tc_val(list(data[offset:offset + length])), offset + length))


@contract("OctetString.decode_content", props=["C08", "C16", "C01"])
def _(self, data: ByteArray, offset: Nat, length: Opt(Int)) -> Tup(Bytes, Int):
    refines("asn1tools/codecs/ber.py::StandardDecodeMixin.decode_content")
    requires(length is not None)
    ensures(result == (bytes(data[offset:offset + length]), offset + length))


@contract("Integer.encode_content", props=["C03", "C01"])
def _(self, data: Int, values: Opt(Val)) -> Bytes:
    ensures(list(result) == be_bytes(data, len(result)) and tc_min_len(data, len(result)))


@contract("OctetString.encode_content", props=["C03", "C01"])
def _(self, data: Bytes, values: Opt(Val)) -> Bytes:
    ensures(result == data)


@contract("asn1tools/codecs/compiler.py", "clean_bit_string_value", props=["C03", "C01"])
def _(value: Tup(Bytes, Nat), has_named_bits: Bool) -> Tup(ByteArray, Nat):
    # the value with its unused bits cleared; with a named bit list also without trailing zero bits (X.690 11.2.2;
    # the removal itself is the assumed contract of rstrip_bit_string_zeros, bytes.rstrip is not modelled)
    requires(len(value[0]) >= (value[1] + 7) // 8)
    ensures(len(result[0]) == (result[1] + 7) // 8)
    ensures(implies(not has_named_bits, result[1] == value[1]))
    ensures(len(result[0]) <= (value[1] + 7) // 8)


@contract("BitString.encode", props=["C03", "C01"])
def _(self, data: Tup(Bytes, Nat), encoded: ByteArray, values: Opt(Val)):
    requires(self.tag is not None)
    requires(len(data[0]) >= (data[1] + 7) // 8)
    assumes("no contents of 2**1008 octets or more exist (memory)", data[1] < 2 ** 1000)
    assigns(encoded)
    # g_n: the number of bits that is encoded -- the value's own for a plain BIT STRING, the cleaned one (trailing zero
    # bits removed, X.690 11.2.2) when the type has a named bit list
    ghost_init(g_n=0)
    at_stmt("number_of_bytes, number_of_rest_bits = divmod(data[1], 8)", set=dict(g_n=data[1]))
    ensures(implies(not self.has_named_bits, g_n == data[1]))
    # cut point just before the TLV is written: unused-bits count and number of contents octets (X.690 8.6.2).
    # The masking of the last octet is proved on ber.BitString.encode_content (the same algorithm); stated on this copy of
    # the code it made the sequence queries exceed every budget, so it is NOT under contract here.
    at_stmt("encoded.extend(self.tag)",
            check=[number_of_unused_bits == (8 - g_n % 8) % 8, len(data) == (g_n + 7) // 8])
    ensures(list(encoded[:len(old(encoded))]) == list(old(encoded))
            and list(encoded[len(old(encoded)):len(old(encoded)) + len(self.tag)]) == list(self.tag))
    ensures(len(encoded) >= len(old(encoded)) + len(self.tag) + 2 + (g_n + 7) // 8)


@contract("ArrayType.set_tag", props=["C03", "C01", "C04"], for_class="*")
def _(self, number: Nat, flags: Union(Lit(0), Lit(32), Lit(64), Lit(96), Lit(128), Lit(160), Lit(192), Lit(224))):
    # SEQUENCE OF / SET OF are always constructed; the class that was asked for is kept (F19)
    no_invariant()
    assigns(self)
    ensures(list(self.tag) == tag_octets(number, flags + (0 if (flags // 32) % 2 == 1 else 32)) and self.tag_len == len(self.tag))
