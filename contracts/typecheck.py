FILE = "asn1tools/codecs/type_checker.py"

fields("Type", name=Str)
fields("Enumerated", _numeric_enums=Bool)
fields("Choice", name_to_member=Map('str', Obj("Type")))
fields("Recursive", inner=Obj("Type"))
fields("CompiledType", _type=Obj("Type"))
fields("asn1tools/codecs/__init__.py", "EncodeError", message=Val, location=IdList)
formatting("Choice.format_names")


@contract("Type.encode", abstract=True)
def _(self, data: Val):
    raises(EncodeError)


@contract("Integer.encode", props=["C12"])
def _(self, data: Union(Int, Bool, Str, Bytes, NoneT, Float, Tup(Int, Int))):
    # README type table: INTEGER takes int (or a named-number str); everything else is rejected, never accepted
    raises_iff(EncodeError, not (py_is_int(data) or py_is_str(data)), ensures=[len(exc.location) == 0])


@contract("Float.encode", props=["C12"])
def _(self, data: Union(Int, Bool, Str, Bytes, NoneT, Float, Tup(Int, Int))):
    raises_iff(EncodeError, not (py_is_float(data) or py_is_int(data)), ensures=[len(exc.location) == 0])


@contract("Null.encode", props=["C12"])
def _(self, data: Union(Int, Bool, Str, Bytes, NoneT, Float, Tup(Int, Int))):
    raises_iff(EncodeError, not py_is_none(data), ensures=[len(exc.location) == 0])


@contract("Bytes.encode", props=["C12"])
def _(self, data: Union(Int, Bool, Str, Bytes, ByteArray, NoneT, Float, Tup(Int, Int))):
    raises_iff(EncodeError, not py_is_bytes(data), ensures=[len(exc.location) == 0])


@contract("String.encode", props=["C12"])
def _(self, data: Union(Int, Bool, Str, Bytes, NoneT, Float, Tup(Int, Int))):
    raises_iff(EncodeError, not py_is_str(data), ensures=[len(exc.location) == 0])


@contract("BitString.encode", props=["C12"])
def _(self, data: Union(Tup(Bytes, Int), Tup(ByteArray, Int), Tup(Bytes, Str), Tup(Str, Int), Tup(Bytes, Int, Int), Bytes, Int, NoneT)):
    # (bytes, number of bits) with enough data for the announced bits
    raises_iff(EncodeError, not (py_is_tuple(data) and len(data) == 2 and py_is_bytes(data[0]) and py_is_int(data[1])
                                 and 8 * len(data[0]) >= data[1]),
               ensures=[len(exc.location) == 0])


@contract("Enumerated.encode", props=["C12"])
def _(self, data: Union(Int, Bool, Str, Bytes, NoneT, Float)):
    inline("Enumerated.encode_integer", "Enumerated.encode_string")
    raises_iff(EncodeError, not ((self._numeric_enums and py_is_int(data)) or (not self._numeric_enums and py_is_str(data))),
               ensures=[len(exc.location) == 0])


@contract("Choice.encode", props=["C12"])
def _(self, data: Union(Tup(Str, Val), Tup(Int, Val), Tup(Str, Val, Val), Int, Str, NoneT)):
    # a (name, value) pair naming a known alternative; an error inside the alternative is located at it
    raises(EncodeError, ensures=[implies(py_is_tuple(data) and len(data) == 2 and py_is_str(data[0])
                                         and data[0] in self.name_to_member,
                                         located_at(exc, self.name_to_member[data[0]]))])
    ensures(py_is_tuple(data) and len(data) == 2 and py_is_str(data[0]) and data[0] in self.name_to_member)


@contract("Recursive.encode", props=["C12"])
def _(self, data: Val):
    raises(EncodeError, ensures=[located_at(exc, self.inner)])


@contract("CompiledType.encode", props=["C12"])
def _(self, data: Val):
    # the path always starts with the top-level type
    raises(EncodeError, ensures=[located_at(exc, self._type)])
