FILE = "asn1tools/codecs/xer.py"

fields("Type", name=Str, type_name=Str, optional=Bool, default=Opt(Val))
fields("Choice", name_to_member=Map('str', Obj("Type")), has_extension_marker=Bool)
formatting("Choice.format_names")


@contract("Type.encode", abstract=True)
def _(self, data: Val) -> Val:
    raises(EncodeError)


@contract("Choice.encode_of", props=["C12"])
def _(self, data: Tup(Str, Val)) -> Val:
    # CHOICE as the element of SEQUENCE OF / SET OF: an error inside the alternative is located at it
    raises(EncodeError, ensures=[implies(data[0] in self.name_to_member, located_at(exc, self.name_to_member[data[0]]))])
    ensures(data[0] in self.name_to_member)
