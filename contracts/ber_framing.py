FILE = "asn1tools/codecs/ber.py"

fields("asn1tools/codecs/__init__.py", "ErrorWithLocation", message=Val, location=Val)
fields("asn1tools/codecs/__init__.py", "DecodeError", offset=Val)
fields("MissingDataError", expected_length=Int)


@contract("decode_length", props=["C15", "C04", "C16", "C08"])
def _(encoded: Bytes, offset: Nat, enforce_definite: Bool):
    # exceptional behaviour: exactly the library's decode errors, exactly when the data is short
    raises_iff(MissingDataError,
               len_hdr_complete(encoded, offset) and not len_is_indefinite(encoded, offset)
               and offset + len_hdr_size(encoded, offset) + len_value(encoded, offset) > len(encoded),
               ensures=[exc.expected_length == len_value(old(encoded), old(offset))])
    raises_iff(OutOfByteDataError, not len_hdr_complete(encoded, offset))
    raises_iff(DecodeError, len_hdr_complete(encoded, offset) and len_is_indefinite(encoded, offset)
               and enforce_definite)
    ensures(implies(len_is_indefinite(encoded, offset), result[0] is None and result[1] == offset + 1))
    ensures(implies(not len_is_indefinite(encoded, offset),
                    result[0] == len_value(encoded, offset)
                    and result[1] == offset + len_hdr_size(encoded, offset)
                    and result[1] + result[0] <= len(encoded)))


@contract("skip_tag", props=["C15", "C04", "C16", "C08"])
def _(data: Bytes, offset: Nat):
    raises_iff(OutOfByteDataError, not tag_complete(data, offset) or tag_end(data, offset) >= len(data))
    ensures(result == tag_end(data, offset))
    ensures(offset < result and result < len(data))
    loop(0, invariant=[old(offset) + 1 <= offset, offset <= len(data),
                       tag_cont_end(data, offset) == tag_cont_end(data, old(offset) + 1),
                       tag_cont_complete(data, offset) == tag_cont_complete(data, old(offset) + 1)],
         decreases=len(data) - offset)
