FILE = "asn1tools/codecs/ber.py"

fields("asn1tools/codecs/__init__.py", "ErrorWithLocation", message=Val, location=IdList)
mutable("asn1tools/codecs/__init__.py::ErrorWithLocation", "location")
fields("asn1tools/codecs/__init__.py", "DecodeError", offset=Val)
fields("MissingDataError", expected_length=Int, offset=Int)


@contract("decode_length", props=["C15", "C04", "C16", "C08"])
def _(encoded: Bytes, offset: Nat, enforce_definite: Bool) -> Tup(Opt(Int), Int):
    # exceptional behaviour: exactly the library's decode errors, exactly when the data is short
    raises_iff(MissingDataError,
               len_hdr_complete(encoded, offset) and not len_is_indefinite(encoded, offset)
               and offset + len_hdr_size(encoded, offset) + len_value(encoded, offset) > len(encoded),
               ensures=[exc.expected_length == len_value(old(encoded), old(offset)),
                        exc.offset == old(offset) + len_hdr_size(old(encoded), old(offset))])
    raises_iff(OutOfByteDataError, not len_hdr_complete(encoded, offset))
    raises_iff(DecodeError, len_hdr_complete(encoded, offset) and len_is_indefinite(encoded, offset)
               and enforce_definite)
    ensures(implies(len_is_indefinite(encoded, offset), result[0] is None and result[1] == offset + 1))
    ensures(implies(not len_is_indefinite(encoded, offset),
                    result[0] == len_value(encoded, offset)
                    and result[1] == offset + len_hdr_size(encoded, offset)
                    and result[1] + result[0] <= len(encoded)))


@contract("skip_tag", props=["C15", "C04", "C16", "C08"])
def _(data: Bytes, offset: Nat) -> Int:
    raises_iff(OutOfByteDataError, not tag_complete(data, offset) or tag_end(data, offset) >= len(data))
    ensures(result == tag_end(data, offset))
    ensures(offset < result and result < len(data))
    loop(0, invariant=[old(offset) + 1 <= offset, offset <= len(data),
                       tag_cont_end(data, offset) == tag_cont_end(data, old(offset) + 1),
                       tag_cont_complete(data, offset) == tag_cont_complete(data, old(offset) + 1)],
         decreases=len(data) - offset)


@contract("encode_signed_integer", props=["C03", "C01"])
def _(number: Int) -> Bytes:
    # X.690 8.3: two's complement, minimal number of octets
    use(blen_upper(abs_(number + (1 if number < 0 else 0))))
    use(blen_lower(abs_(number + (1 if number < 0 else 0))))
    use(pow2_mono(blen(abs_(number + (1 if number < 0 else 0))),
                  8 * ((8 + blen(abs_(number + (1 if number < 0 else 0)))) // 8) - 1))
    use(pow2_mono(8 * ((8 + blen(abs_(number + (1 if number < 0 else 0)))) // 8) - 9,
                  blen(abs_(number + (1 if number < 0 else 0))) - 1))
    ensures(list(result) == be_bytes(number, len(result)))
    ensures(tc_min_len(number, len(result)))


@contract("encode_length_definite", props=["C03", "C15", "C01"])
def _(length: Nat) -> ByteArray:
    requires(length < 2 ** 1008)          # 126 length octets is the X.690 maximum (8.1.3.5)
    use(blen_le(length, 1008))
    ensures(is_der_length(list(result), length))
    loop(0, invariant=[length >= 0, old(length) > 127,
                       lv(list(encoded), length) == old(length),
                       (length > 0 and blen(length) + 8 * len(encoded) == blen(old(length)))
                       or (length == 0 and len(encoded) == (blen(old(length)) + 7) // 8)],
         decreases=length,
         use=[blen_small(length), blen_div256(length)],
         use_step=[lv_snoc(list(at_head(encoded)), at_head(length))])
    at_stmt("encoded.append(0x80 | len(encoded))",
            use=[rev_snoc(list(encoded), 0x80 | len(encoded)), be_val_rev(list(encoded))])


@contract("skip_tag_length_contents", props=["C15", "C07", "C08"])
def _(data: Bytes, offset: Nat) -> Int:
    raises_iff(MissingDataError, tlv_header_complete(data, offset) and not tlv_is_indefinite(data, offset)
               and tlv_end(data, offset) > len(data),
               ensures=[exc.offset + exc.expected_length == tlv_end(old(data), old(offset))])
    raises_iff(OutOfByteDataError, not tlv_header_complete(data, offset))
    raises_iff(DecodeError, tlv_header_complete(data, offset) and tlv_is_indefinite(data, offset))
    ensures(result == tlv_end(data, offset) and result <= len(data) and result > offset)


@contract("decode_full_length", props=["C15"])
def _(data: Bytes):
    # the length probe: total length once identifier and length octets are present, None before that,
    # never another number, never an exception for definite lengths
    raises_iff(DecodeError, tlv_header_complete(data, 0) and tlv_is_indefinite(data, 0))
    ensures(implies(not tlv_header_complete(data, 0), result is None))
    ensures(implies(tlv_header_complete(data, 0), result == tlv_end(data, 0)))


@contract("read_tag", props=["C15", "C04"])
def _(data: Bytes, offset: Nat) -> Bytes:
    raises_iff(OutOfByteDataError, not tag_complete(data, offset) or tag_end(data, offset) >= len(data))
    ensures(result == data[offset:tag_end(data, offset)])


@contract("detect_end_of_contents_tag", props=["C04", "C08", "C16"])
def _(data: Bytes, offset: Nat) -> Bool:
    raises_iff(OutOfByteDataError, offset + 2 > len(data))
    ensures(result == (data[offset] == 0 and data[offset + 1] == 0))


@contract("is_end_of_data", props=["C04", "C08", "C16"])
def _(data: Bytes, offset: Nat, end_offset: Opt(Int)) -> Tup(Bool, Int):
    raises_iff(OutOfByteDataError, end_offset is None and offset + 2 > len(data))
    ensures(implies(end_offset is not None, result == (offset >= end_offset, offset)))
    ensures(implies(end_offset is None and data[offset] == 0 and data[offset + 1] == 0, result == (True, offset + 2)))
    ensures(implies(end_offset is None and not (data[offset] == 0 and data[offset + 1] == 0), result == (False, offset)))


@contract("encode_tag", props=["C03", "C01"])
def _(number: Nat, flags: Union(Lit(0), Lit(32), Lit(64), Lit(96), Lit(128), Lit(160), Lit(192), Lit(224))) -> ByteArray:
    ensures(list(result) == tag_octets(number, flags))
    loop(0, invariant=[number >= 0, old(number) >= 31, list(encoded) + le128(number) == le128(old(number))],
         decreases=number)
    at_stmt("encoded.reverse()", use=[])


@contract("Type.set_tag", props=["C03", "C01", "C04"], for_class="*")
def _(self, number: Nat, flags: Union(Lit(0), Lit(32), Lit(64), Lit(96), Lit(128), Lit(160), Lit(192), Lit(224))):
    # X.690 8.1.2: the identifier octets carry exactly the class and the primitive/constructed bit that was asked for
    # -- for every type class of the BER and the DER codec (a UNIVERSAL class tag stays UNIVERSAL, F19)
    no_invariant()
    assigns(self)
    ensures(list(self.tag) == tag_octets(number, flags) and self.tag_len == len(self.tag))


@contract("PrimitiveOrConstructedType.set_tag", props=["C03", "C01", "C04"], for_class="*")
def _(self, number: Nat, flags: Union(Lit(0), Lit(64), Lit(128), Lit(192))):
    # string-like types: the primitive identifier and the same identifier with the constructed bit set
    no_invariant()
    assigns(self)
    ensures(list(self.tag) == tag_octets(number, flags) and self.tag_len == len(self.tag))
    ensures(list(self.constructed_tag) == tag_octets(number, flags + 32))


@contract("MembersType.set_tag", props=["C03", "C01", "C04"], for_class="*")
def _(self, number: Nat, flags: Union(Lit(0), Lit(32), Lit(64), Lit(96), Lit(128), Lit(160), Lit(192), Lit(224))):
    # SEQUENCE / SET are always constructed
    no_invariant()
    assigns(self)
    ensures(list(self.tag) == tag_octets(number, flags + (0 if (flags // 32) % 2 == 1 else 32)) and self.tag_len == len(self.tag))


@contract("ArrayType.set_tag", props=["C03", "C01", "C04"], for_class="*")
def _(self, number: Nat, flags: Union(Lit(0), Lit(32), Lit(64), Lit(96), Lit(128), Lit(160), Lit(192), Lit(224))):
    no_invariant()
    assigns(self)
    ensures(list(self.tag) == tag_octets(number, flags + (0 if (flags // 32) % 2 == 1 else 32)) and self.tag_len == len(self.tag))


@contract("ExplicitTag.set_tag", props=["C03", "C01", "C04"])
def _(self, number: Nat, flags: Union(Lit(0), Lit(32), Lit(64), Lit(96), Lit(128), Lit(160), Lit(192), Lit(224))):
    no_invariant()
    assigns(self)
    ensures(list(self.tag) == tag_octets(number, flags + (0 if (flags // 32) % 2 == 1 else 32)) and self.tag_len == len(self.tag))


fields("Recursive", tag_number=Opt(Int), tag_flags=Opt(Int))


@contract("Recursive.set_tag", props=["C03", "C01", "C04"])
def _(self, number: Nat, flags: Union(Lit(0), Lit(32), Lit(64), Lit(96), Lit(128), Lit(160), Lit(192), Lit(224))):
    # a recursive reference only records the tag; set_inner_type applies it to the copy of the resolved type
    no_invariant()
    assigns(self)
    ensures(self.tag_number == number and self.tag_flags == flags)
