FILE = "asn1tools/codecs/per.py"

fields("asn1tools/codecs/__init__.py", "BaseType", name=Str, type_name=Str, optional=Bool, default=Opt(Val))
fields("Type", module_name=Opt(Str), tag=Opt(Val))
fields("Enumerated", root_index_to_data=Map('int', Val), root_data_to_index=Map('val', Nat), root_number_of_bits=Nat,
       additions_index_to_data=Opt(Map('int', Val)), additions_data_to_index=Opt(Map('val', Nat)))
formatting("Enumerated.format_names", "Enumerated.format_root_indexes")


@contract("Enumerated.encode", props=["C12", "C05", "C01"])
def _(self, data: Val, encoder: Obj("Encoder")):
    # X.691 14: root values as a constrained index; additions as extension bit 1 + normally small number.
    # An unknown name is the library's encode error, never a KeyError (C12)
    requires(encoder.number_of_bits <= 3900)
    requires((self.additions_index_to_data is None) == (self.additions_data_to_index is None))
    assumes("class invariant of Enumerated (established by __init__): every root index fits root_number_of_bits",
            implies(data in self.root_data_to_index, self.root_data_to_index[data] < pow2(self.root_number_of_bits)))
    raises_iff(EncodeError, data not in self.root_data_to_index
               and (self.additions_data_to_index is None or data not in self.additions_data_to_index))
    assigns(encoder)
    ensures(implies(self.additions_index_to_data is None,
                    encoder.number_of_bits == old(encoder.number_of_bits) + self.root_number_of_bits
                    and encoder.value == old(encoder.value) * pow2(self.root_number_of_bits) + self.root_data_to_index[data]))
    ensures(implies(self.additions_index_to_data is not None and data in self.root_data_to_index,
                    encoder.number_of_bits == old(encoder.number_of_bits) + 1 + self.root_number_of_bits
                    and encoder.value == 2 * old(encoder.value) * pow2(self.root_number_of_bits) + self.root_data_to_index[data]))


fields("MembersType", root_members=ObjSeq("Type"), additions=Opt(ObjSeq("Type")), optionals=ObjSeq("Type"))


@contract("Type.decode", abstract=True)
def _(self, decoder: Obj("Decoder")) -> Val:
    raises(DecodeError)
    raises(UnicodeDecodeError)
    raises(ValueError)
    raises(IndexError)
    raises(NotImplementedError)
    assigns(decoder)
    ensures(decoder.number_of_bits <= old(decoder.number_of_bits))


@contract("MembersType.decode_additions", props=["C07", "C05", "C16", "C08"], for_class="any")
def _(self, decoder: Obj("Decoder")):
    # X.691 19.7-19.9: normally small length n, n presence bits, then one open type per *present* addition.
    # Unconditional half here; "an absent addition consumes nothing" is the presence-guard obligation of
    # pyvc/extras.py::presence_guard_check (the arithmetic version made the solver diverge)
    requires(self.additions is not None)
    forget("bits_val", "is_bitstr")
    raises(DecodeError)
    raises(UnicodeDecodeError)
    raises(ValueError)
    raises(IndexError)
    raises(NotImplementedError)
    assigns(decoder)
    ensures(decoder.number_of_bits <= old(decoder.number_of_bits))
    loop(0, invariant=[decoder.number_of_bits <= at_entry(decoder.number_of_bits, 0),
                       decoder.total_number_of_bits == old(decoder.total_number_of_bits)])
