FILE = "asn1tools/codecs/per.py"

fields("asn1tools/codecs/__init__.py", "BaseType", name=Str, type_name=Str, optional=Bool, default=Opt(Val))
fields("Type", module_name=Opt(Str), tag=Opt(Val))
fields("Enumerated", root_index_to_data=Map('int', Val), root_data_to_index=Map('val', Nat), root_number_of_bits=Nat,
       additions_index_to_data=Opt(Map('int', Val)), additions_data_to_index=Opt(Map('val', Nat)))
formatting("Enumerated.format_names", "Enumerated.format_root_indexes")


@contract("Enumerated.encode", props=["C12", "C05", "C01"])
def _(self, data: Val, encoder: Obj("Encoder")):
    # X.691 14: root values as a constrained index; additions as extension bit 1 + normally small number.
    # An unknown name is the library's encode error, never a KeyError (C12)
    requires(encoder.number_of_bits <= 3900)
    requires((self.additions_index_to_data is None) == (self.additions_data_to_index is None))
    assumes("class invariant of Enumerated (established by __init__): every root index fits root_number_of_bits",
            implies(data in self.root_data_to_index, self.root_data_to_index[data] < pow2(self.root_number_of_bits)))
    raises_iff(EncodeError, data not in self.root_data_to_index
               and (self.additions_data_to_index is None or data not in self.additions_data_to_index))
    assigns(encoder)
    ensures(implies(self.additions_index_to_data is None,
                    encoder.number_of_bits == old(encoder.number_of_bits) + self.root_number_of_bits
                    and encoder.value == old(encoder.value) * pow2(self.root_number_of_bits) + self.root_data_to_index[data]))
    ensures(implies(self.additions_index_to_data is not None and data in self.root_data_to_index,
                    encoder.number_of_bits == old(encoder.number_of_bits) + 1 + self.root_number_of_bits
                    and encoder.value == 2 * old(encoder.value) * pow2(self.root_number_of_bits) + self.root_data_to_index[data]))
