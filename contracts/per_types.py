FILE = "asn1tools/codecs/per.py"

fields("asn1tools/codecs/__init__.py", "BaseType", name=Str, type_name=Str, optional=Bool, default=Opt(Val))
fields("Type", module_name=Opt(Str), tag=Opt(Val))
fields("Enumerated", root_index_to_data=Map('int', Val), root_data_to_index=Map('val', Nat), root_number_of_bits=Nat,
       additions_index_to_data=Opt(Map('int', Val)), additions_data_to_index=Opt(Map('val', Nat)))
formatting("Enumerated.format_names", "Enumerated.format_root_indexes")


@contract("Enumerated.encode", props=["C12", "C05", "C01"])
def _(self, data: Val, encoder: Obj("Encoder")):
    refines("Type.encode")
    # X.691 14: root values as a constrained index; additions as extension bit 1 + normally small number.
    # An unknown name is the library's encode error, never a KeyError (C12)
    requires(encoder.number_of_bits <= 3900)
    requires((self.additions_index_to_data is None) == (self.additions_data_to_index is None))
    assumes("class invariant of Enumerated (established by __init__): every root index fits root_number_of_bits",
            implies(data in self.root_data_to_index, self.root_data_to_index[data] < pow2(self.root_number_of_bits)))
    raises_iff(EncodeError, data not in self.root_data_to_index
               and (self.additions_data_to_index is None or data not in self.additions_data_to_index))
    assigns(encoder)
    ensures(implies(self.additions_index_to_data is None,
                    encoder.number_of_bits == old(encoder.number_of_bits) + self.root_number_of_bits
                    and encoder.value == old(encoder.value) * pow2(self.root_number_of_bits) + self.root_data_to_index[data]))
    ensures(implies(self.additions_index_to_data is not None and data in self.root_data_to_index,
                    encoder.number_of_bits == old(encoder.number_of_bits) + 1 + self.root_number_of_bits
                    and encoder.value == 2 * old(encoder.value) * pow2(self.root_number_of_bits) + self.root_data_to_index[data]))


fields("MembersType", root_members=ObjSeq("Type"), additions=Opt(ObjSeq("Type")), optionals=ObjSeq("Type"))


@contract("Type.decode", abstract=True)
def _(self, decoder: Obj("Decoder")) -> Val:
    raises(DecodeError)
    raises(UnicodeDecodeError)
    raises(ValueError)
    raises(IndexError)
    raises(NotImplementedError)
    assigns(decoder)
    ensures(decoder.number_of_bits <= old(decoder.number_of_bits))
    ensures(decoder.value == old(decoder.value))


@contract("MembersType.decode_additions", props=["C07", "C05", "C16", "C08"], for_class="any")
def _(self, decoder: Obj("Decoder")):
    # X.691 19.7-19.9: normally small length n, n presence bits, then one open type per *present* addition.
    # Unconditional half here; "an absent addition consumes nothing" is the presence-guard obligation of
    # pyvc/extras.py::presence_guard_check (the arithmetic version made the solver diverge)
    requires(self.additions is not None)
    opaque("ld_size", "ld_val", "ld_bad", "nsn_size", "nsn_val")
    forget("bits_val", "is_bitstr")
    raises(DecodeError)
    raises(UnicodeDecodeError)
    raises(ValueError)
    raises(IndexError)
    raises(NotImplementedError)
    assigns(decoder)
    ensures(decoder.number_of_bits <= old(decoder.number_of_bits))
    # exact consumption per addition (since the F10 repair): a present addition -- known to this version or not, empty
    # or not -- takes its length determinant plus exactly the announced number of octets; an absent one takes nothing.
    # g_prev / g_size: read position at the start of the current round and the size that round must consume.
    ghost_init(g_prev=0, g_size=0)
    at_stmt("@loop0", set=dict(g_prev=decoder.number_of_bits, g_size=0))
    at_stmt("@if0", set=dict(g_prev=decoder.number_of_bits,
                             g_size=(ld_size(decoder.value, decoder.total_number_of_bits - decoder.number_of_bits)
                                     + 8 * ld_val(decoder.value, decoder.total_number_of_bits - decoder.number_of_bits)
                                     if presence_bits & (1 << (length - i - 1)) else 0)))
    loop(0, invariant=[decoder.number_of_bits <= at_entry(decoder.number_of_bits, 0),
                       decoder.total_number_of_bits == old(decoder.total_number_of_bits),
                       decoder.value == old(decoder.value),
                       decoder.number_of_bits == g_prev - g_size])


fields("PermittedAlphabet", encode_map=Map('int', Nat), decode_map=Map('int', Nat))
fields("KnownMultiplierStringType", minimum=Opt(Int), maximum=Opt(Int), has_extension_marker=Bool, number_of_bits=Opt(Int),
       bits_per_character=Nat, permitted_alphabet=Obj("PermittedAlphabet"), ENCODING=Str)


@contract("to_int", props=["C05"])
def _(chars: Bytes) -> Nat:
    # big-endian value of the octets (left fold)
    ensures(result == lv_be(0, list(chars)))
    loop(0, invariant=[num >= 0, lv_be(num, list(byte_array)) == lv_be(0, list(chars))], decreases=len(byte_array))


fixup("PermittedAlphabet", "self.encode_map = {abs(k) % 0x110000: v for k, v in self.encode_map.items()}\nself.decode_map = {abs(k) % 0x110000: v for k, v in self.decode_map.items()}")


@contract("PermittedAlphabet.encode", props=["C05", "C12"])
def _(self, value: Nat) -> Nat:
    native(domain=value <= 1114111)     # generated inputs: character codes (chr() in the message text)
    raises_iff(EncodeError, value not in self.encode_map)
    ensures(result == self.encode_map[value])


@contract("KnownMultiplierStringType.encode", props=["C05", "C01"], for_class="any")
def _(self, data: Str, encoder: Obj("Encoder")):
    refines("Type.encode")
    # X.691 30.5.6/30.5.7 (aligned variant): a fixed-size string is octet aligned iff aub * b > 16;
    # a variable-size string is preceded by its length (constrained whole number)
    requires(encoder.number_of_bits <= 3000)
    requires(self.number_of_bits is None or (self.minimum is not None and self.maximum is not None
                                              and 0 <= self.minimum and self.minimum <= self.maximum
                                              and self.maximum <= 65535 and self.number_of_bits == blen(self.maximum - self.minimum)))
    requires(implies(self.number_of_bits is not None, self.minimum <= len(data) and len(data) <= self.maximum))
    requires(self.number_of_bits is not None)      # the length-determinant (unbounded) form is not under contract
    assumes("class invariant of PermittedAlphabet (established by the compiler): every code fits bits_per_character",
            forall(lambda v: implies(v in self.permitted_alphabet.encode_map,
                                     self.permitted_alphabet.encode_map[v] < pow2(self.bits_per_character))))
    use(blen_upper(len(data) - self.minimum))
    use(blen_mono(len(data) - self.minimum, self.maximum - self.minimum))
    use(pow2_mono(blen(len(data) - self.minimum), blen(self.maximum - self.minimum)))
    raises(EncodeError)
    raises(NotImplementedError)
    raises(UnicodeEncodeError)
    assigns(encoder)
    at_stmt("@loop0",
            check=[implies(self.minimum == self.maximum and self.maximum * self.bits_per_character > 16,
                           (encoder.chunks_number_of_bits + encoder.number_of_bits) % 8 == 0),
                   implies(self.minimum == self.maximum and self.maximum * self.bits_per_character <= 16,
                           encoder.number_of_bits == old(encoder.number_of_bits) + (1 if self.has_extension_marker else 0)
                           and encoder.value == old(encoder.value) * (2 if self.has_extension_marker else 1))])
    loop(0, invariant=[encoder.chunks_number_of_bits + encoder.number_of_bits
                       >= old(encoder.chunks_number_of_bits) + old(encoder.number_of_bits)])


fields("Choice", additions_index_to_member=Opt(Map('int', Obj("Type"))), root_index_to_member=Map('int', Obj("Type")),
       root_name_to_index=Map('str', Nat), additions_name_to_index=Opt(Map('str', Nat)),
       number_of_indefinite_bits=Opt(Nat), root_number_of_bits=Nat, maximum=Int)
formatting("Choice.format_names", "Choice.format_root_indexes")


@contract("Choice.decode_additions", props=["C07", "C05", "C16", "C08"])
def _(self, decoder: Obj("Decoder")) -> Tup(Opt(Str), Opt(Val)):
    # X.691 23.8 (aligned): index, octet alignment, length determinant L, exactly L octets -- whether or not this
    # version knows the alternative; an unknown alternative is reported as (None, None) (C07)
    requires(self.additions_index_to_member is not None)
    opaque("ld_size", "ld_val", "ld_bad", "nsn_size", "nsn_val")
    forget("bits_val", "is_bitstr")
    raises(DecodeError)
    raises(UnicodeDecodeError)
    raises(ValueError)
    raises(IndexError)
    raises(NotImplementedError)
    assigns(decoder)
    ensures(decoder.number_of_bits == choice_addition_end(decoder.value, decoder.total_number_of_bits,
                                                          old(decoder.number_of_bits)))
    ensures(implies(nsn_val(decoder.value, decoder.total_number_of_bits - old(decoder.number_of_bits))
                    not in self.additions_index_to_member, result[0] is None and result[1] is None))
    ensures(implies(nsn_val(decoder.value, decoder.total_number_of_bits - old(decoder.number_of_bits))
                    in self.additions_index_to_member, result[0] is not None))


@contract("Type.encode", abstract=True)
def _(self, data: Val, encoder: Obj("Encoder")):
    # assumed for component types (each concrete class under contract refines it): only appends bits
    raises(EncodeError)
    raises(OverflowError)
    raises(UnicodeEncodeError)
    raises(ValueError)
    assigns(encoder)
    ensures(encoder.chunks_number_of_bits + encoder.number_of_bits
            >= old(encoder.chunks_number_of_bits) + old(encoder.number_of_bits))


@contract("MembersType.encode_member", props=["C12", "C01", "C05"], for_class="any")
def _(self, member: Obj("Type"), data: Map('str', Val), encoder: Obj("Encoder"), encode_default: Bool):
    # X.691 19.5: a component equal to its DEFAULT is not encoded (unless it is an extension addition); absent
    # OPTIONAL/DEFAULT components add nothing; a missing mandatory component is an encode error; an error inside
    # the component is located at it, whatever kind of component it is (C12)
    raises(EncodeError, ensures=[implies(member.name in data, located_at(exc, member))])
    raises(OverflowError)
    raises(UnicodeEncodeError)
    raises(ValueError)
    assigns(encoder)
    ensures(member.name in data or member.optional or member.default is not None)
    ensures(encoder.chunks_number_of_bits + encoder.number_of_bits
            >= old(encoder.chunks_number_of_bits) + old(encoder.number_of_bits))
    ensures(implies(member.name not in data,
                    encoder.number_of_bits == old(encoder.number_of_bits) and encoder.value == old(encoder.value)
                    and encoder.chunks_number_of_bits == old(encoder.chunks_number_of_bits)))
    ensures(implies(member.name in data and member.default is not None and not encode_default
                    and is_dflt(ident(member), data[member.name]),
                    encoder.number_of_bits == old(encoder.number_of_bits) and encoder.value == old(encoder.value)
                    and encoder.chunks_number_of_bits == old(encoder.chunks_number_of_bits)))


@contract("Encoder.are_all_bits_zero", abstract=True)
def _(self) -> Bool:
    # assumed (the chunk list is not tracked): true only if the accumulator holds no 1 bit; with nothing flushed to
    # chunks it is exactly that
    ensures(implies(result, self.value == 0))
    ensures(implies(self.chunks_number_of_bits == 0, result == (self.value == 0)))


@contract("Encoder.reset", props=["C05", "C01"])
def _(self):
    assigns(self)
    ensures(self.number_of_bits == 0 and self.value == 0 and self.chunks_number_of_bits == 0)


@contract("MembersType.encode_root", props=["C05", "C01", "C12"], for_class="any")
def _(self, data: Map('str', Val), encoder: Obj("Encoder")):
    # X.691 19.2/19.3: one preamble bit per OPTIONAL/DEFAULT root component, then the components in order
    raises(EncodeError)
    raises(OverflowError)
    raises(UnicodeEncodeError)
    raises(ValueError)
    assigns(encoder)
    ghost_init(g_pre=0)
    at_stmt("@loop1", set=dict(g_pre=encoder.chunks_number_of_bits + encoder.number_of_bits))
    ensures(encoder.chunks_number_of_bits + encoder.number_of_bits
            >= old(encoder.chunks_number_of_bits) + old(encoder.number_of_bits) + len(self.optionals))
    loop(0, invariant=[encoder.chunks_number_of_bits + encoder.number_of_bits
                       == old(encoder.chunks_number_of_bits) + old(encoder.number_of_bits) + _i0,
                       _i0 <= len(self.optionals)])
    loop(1, invariant=[encoder.chunks_number_of_bits + encoder.number_of_bits >= g_pre,
                       g_pre == old(encoder.chunks_number_of_bits) + old(encoder.number_of_bits) + len(self.optionals)])


@contract("MembersType.encode_addition_group", props=["C05", "C01"], for_class="any")
def _(self, data: Map('str', Val), encoder: Obj("Encoder")):
    # X.691 19.9 / X.680 version brackets: the group is encoded as absent (encoder reset) only when encode_root
    # produced nothing but an all-zero preamble, i.e. no component of the group is present; in every other case
    # what encode_root wrote stays untouched (g_* = the encoder just after encode_root)
    requires(encoder.number_of_bits == 0 and encoder.chunks_number_of_bits == 0 and encoder.value == 0)
    raises(EncodeError)
    raises(OverflowError)
    raises(UnicodeEncodeError)
    raises(ValueError)
    assigns(encoder)
    ghost_init(g_nb=0, g_val=0, g_chunks=0)
    at_stmt("@if0", set=dict(g_nb=encoder.number_of_bits, g_val=encoder.value, g_chunks=encoder.chunks_number_of_bits))
    ensures(g_chunks + g_nb >= len(self.optionals))
    ensures(implies(g_chunks + g_nb != len(self.optionals) or g_val != 0,
                    encoder.number_of_bits == g_nb and encoder.value == g_val
                    and encoder.chunks_number_of_bits == g_chunks))
    ensures((encoder.number_of_bits == g_nb and encoder.value == g_val and encoder.chunks_number_of_bits == g_chunks)
            or (encoder.number_of_bits == 0 and encoder.value == 0 and encoder.chunks_number_of_bits == 0))


fields("Integer", minimum=Opt(Int), maximum=Opt(Int), has_extension_marker=Bool, number_of_bits=Opt(Nat),
       number_of_indefinite_bits=Opt(Nat),
       root_minimum=Union(Int, Lit('MIN'), NoneT), root_maximum=Union(Int, Lit('MAX'), NoneT))
invariant("Integer", (self.number_of_bits is None) == (self.minimum is None),
          (self.minimum is None) == (self.maximum is None),
          implies(self.minimum is not None, self.root_minimum == self.minimum and self.root_maximum == self.maximum),
          implies(self.number_of_bits is not None,
                  self.minimum <= self.maximum and self.number_of_bits == blen(self.maximum - self.minimum)
                  and (self.number_of_indefinite_bits is None) == (self.maximum - self.minimum <= 65535)),
          implies(self.number_of_bits is None, self.number_of_indefinite_bits is None))
fixup("Integer", "if self.minimum is None or self.maximum is None:\n    self.minimum = self.maximum = self.number_of_bits = self.number_of_indefinite_bits = None\nelse:\n    self.minimum, self.maximum = min(self.minimum, self.maximum), max(self.minimum, self.maximum)\n    self.number_of_bits = (self.maximum - self.minimum).bit_length()\n    self.root_minimum, self.root_maximum = self.minimum, self.maximum\n    self.number_of_indefinite_bits = None if self.maximum - self.minimum <= 65535 else ((self.number_of_bits + 7) // 8 - 1).bit_length()")


@contract("Integer.set_restricted_to_range", props=["C05", "C01"])
def _(self, minimum: IntOrMin, maximum: IntOrMax, has_extension_marker: Bool):
    # X.691 11.5.7 (aligned): a finite range lb..ub: blen(ub - lb) bits for ranges up to 64K; larger ranges use the
    # "indefinite length" form (a length field of blen(octets - 1) bits)
    requires(self.number_of_bits is None and self.minimum is None and self.maximum is None
             and self.number_of_indefinite_bits is None)
    requires(minimum == 'MIN' or maximum == 'MAX' or minimum <= maximum)
    no_invariant()
    assigns(self)
    ensures(self.has_extension_marker == has_extension_marker)
    ensures(self.root_minimum == minimum and self.root_maximum == maximum)
    ensures(implies(minimum != 'MIN' and maximum != 'MAX',
                    self.minimum == minimum and self.maximum == maximum and self.number_of_bits == blen(maximum - minimum)
                    and (self.number_of_indefinite_bits is None) == (maximum - minimum <= 65535)))
    ensures(implies(minimum != 'MIN' and maximum != 'MAX' and maximum - minimum > 65535,
                    self.number_of_indefinite_bits == blen((blen(maximum - minimum) + 7) // 8 - 1)))
    ensures(implies(minimum == 'MIN' or maximum == 'MAX',
                    self.minimum is None and self.maximum is None and self.number_of_bits is None
                    and self.number_of_indefinite_bits is None))


@contract("Integer.encode", props=["C05", "C01", "C12"], label="aligned")
def _(self, data: Int, encoder: Obj("Encoder")):
    refines("Type.encode")
    # X.691 13 + 11.5.7 (aligned): root values of a range of at most 255 values: a bit field of blen(ub - lb) bits, no
    # alignment; 256 values: one aligned octet; up to 64K: two aligned octets.  Ranges above 64K (indefinite length
    # form) are not under contract here.
    requires(encoder.number_of_bits <= 3900)
    requires(self.number_of_indefinite_bits is None)
    requires(-pow2(1000) < data and data < pow2(1000))
    requires(implies(self.number_of_bits is not None and not self.has_extension_marker,
                     self.minimum <= data and data <= self.maximum))          # established by check_constraints (C11)
    known("F25", py_is_int(self.root_minimum) and not py_is_int(self.root_maximum))
    use(blen_upper(data - self.minimum))
    use(blen_mono(data - self.minimum, self.maximum - self.minimum))
    use(pow2_mono(blen(data - self.minimum), blen(self.maximum - self.minimum)))
    raises(EncodeError, when=False)
    assigns(encoder)
    ensures(implies(not self.has_extension_marker and py_is_int(self.root_minimum) and not py_is_int(self.root_maximum)
                    and self.root_minimum <= data and data - self.root_minimum < 256,
                    (encoder.chunks_number_of_bits + encoder.number_of_bits) % 8 == 0
                    and encoder.value % 65536 == 256 + (data - self.root_minimum)))
    ensures(implies(self.number_of_bits is not None and not self.has_extension_marker
                    and self.maximum - self.minimum + 1 <= 255,
                    encoder.number_of_bits == old(encoder.number_of_bits) + self.number_of_bits
                    and encoder.value == old(encoder.value) * pow2(self.number_of_bits) + (data - self.minimum)))
    ensures(implies(self.number_of_bits is not None and not self.has_extension_marker
                    and self.maximum - self.minimum + 1 == 256,
                    (encoder.chunks_number_of_bits + encoder.number_of_bits) % 8 == 0
                    and encoder.value % 256 == data - self.minimum))
    ensures(implies(self.number_of_bits is not None and self.has_extension_marker
                    and self.minimum <= data and data <= self.maximum and self.maximum - self.minimum + 1 <= 255,
                    encoder.number_of_bits == old(encoder.number_of_bits) + 1 + self.number_of_bits
                    and encoder.value == 2 * old(encoder.value) * pow2(self.number_of_bits) + (data - self.minimum)))


@contract("Integer.decode", props=["C05", "C01", "C16", "C08"], label="aligned")
def _(self, decoder: Obj("Decoder")) -> Int:
    # every read is checked (truncation -> OutOfDataError); a root value of a finite range is at least the lower bound
    opaque("ld_size", "ld_val", "ld_bad")
    requires(self.number_of_indefinite_bits is None)
    raises(OutOfDataError)
    raises(DecodeError)
    raises(ValueError)        # unconstrained whole number with a zero length determinant (not a valid encoding)
    assigns(decoder)
    ensures(decoder.number_of_bits <= old(decoder.number_of_bits) and decoder.value == old(decoder.value))
    ensures(implies(self.number_of_bits is not None and not self.has_extension_marker, result >= self.minimum))


@contract("Enumerated.decode", props=["C05", "C07", "C16", "C08", "C01"])
def _(self, decoder: Obj("Decoder")):
    refines("Type.decode")
    # X.691 14: root: an index of root_number_of_bits bits; extensible: a leading bit, then either the root index or a
    # normally small number.  C07: an addition this version does not know is consumed exactly like a known one
    # (nsn_size bits) -- what follows is read from the right position
    opaque("ld_size", "ld_val", "ld_bad", "nsn_size", "nsn_val")
    inline("Enumerated.decode_root")
    requires((self.additions_index_to_data is None) == (self.additions_data_to_index is None))
    ensures(implies(self.additions_index_to_data is None,
                    decoder.number_of_bits == old(decoder.number_of_bits) - self.root_number_of_bits))
    ensures(implies(self.additions_index_to_data is not None
                    and bits_val(decoder.value[decoder.total_number_of_bits - old(decoder.number_of_bits):
                                               decoder.total_number_of_bits - old(decoder.number_of_bits) + 1]) == 0,
                    decoder.number_of_bits == old(decoder.number_of_bits) - 1 - self.root_number_of_bits))
    ensures(implies(self.additions_index_to_data is not None
                    and bits_val(decoder.value[decoder.total_number_of_bits - old(decoder.number_of_bits):
                                               decoder.total_number_of_bits - old(decoder.number_of_bits) + 1]) != 0,
                    decoder.number_of_bits == old(decoder.number_of_bits) - 1
                    - nsn_size(decoder.value, decoder.total_number_of_bits - old(decoder.number_of_bits) + 1)))


fields("ArrayType", element_type=Obj("Type"), minimum=Union(Int, Lit('MIN'), NoneT), maximum=Union(Int, Lit('MAX'), NoneT),
       has_extension_marker=Bool, number_of_bits=Opt(Nat))
invariant("ArrayType", implies(self.number_of_bits is not None,
                               py_is_int(self.minimum) and py_is_int(self.maximum) and 0 <= self.minimum
                               and self.minimum <= self.maximum and self.maximum <= 65535
                               and self.number_of_bits == blen(self.maximum - self.minimum)))


@contract("ArrayType.encode_unbound", abstract=True)
def _(self, data: ValSeq, encoder: Obj("Encoder")):
    # assumed (generator based fragment loop, outside the subset): only appends
    raises(EncodeError)
    raises(OverflowError)
    raises(UnicodeEncodeError)
    raises(ValueError)
    assigns(encoder)
    ensures(encoder.chunks_number_of_bits + encoder.number_of_bits
            >= old(encoder.chunks_number_of_bits) + old(encoder.number_of_bits))


@contract("ArrayType.decode_unbound", abstract=True)
def _(self, decoder: Obj("Decoder")) -> Val:
    raises(DecodeError)
    raises(UnicodeDecodeError)
    raises(ValueError)
    raises(IndexError)
    raises(NotImplementedError)
    assigns(decoder)
    ensures(decoder.number_of_bits <= old(decoder.number_of_bits) and decoder.value == old(decoder.value))


@contract("ArrayType.encode", props=["C05", "C01", "C12"], for_class="any")
def _(self, data: ValSeq, encoder: Obj("Encoder")):
    refines("Type.encode")
    # X.691 20: fixed size: just the elements; bounded size: the count as a constrained whole number (n - lb in
    # blen(ub - lb) bits for ranges up to 255), then the elements; outside an extensible root: bit 1 and a general length
    requires(encoder.number_of_bits <= 3000)
    requires(implies(self.number_of_bits is not None and not self.has_extension_marker,
                     self.minimum <= len(data) and len(data) <= self.maximum))      # established by check_constraints (C11)
    use(blen_upper(len(data) - self.minimum))
    use(blen_mono(len(data) - self.minimum, self.maximum - self.minimum))
    use(blen_le(self.maximum - self.minimum, 16))
    use(pow2_mono(blen(len(data) - self.minimum), blen(self.maximum - self.minimum)))
    raises(EncodeError)
    raises(OverflowError)
    raises(UnicodeEncodeError)
    raises(ValueError)
    assigns(encoder)
    ghost_init(g_hdr=0)
    at_stmt("@loop1", set=dict(g_hdr=encoder.chunks_number_of_bits + encoder.number_of_bits))
    ensures(encoder.chunks_number_of_bits + encoder.number_of_bits
            >= old(encoder.chunks_number_of_bits) + old(encoder.number_of_bits))
    ensures(implies(not self.has_extension_marker and self.number_of_bits is not None and self.minimum == self.maximum,
                    g_hdr == old(encoder.chunks_number_of_bits) + old(encoder.number_of_bits)))
    ensures(implies(not self.has_extension_marker and self.number_of_bits is not None and self.minimum != self.maximum
                    and self.maximum - self.minimum + 1 <= 255,
                    g_hdr == old(encoder.chunks_number_of_bits) + old(encoder.number_of_bits) + self.number_of_bits))
    loop(0, invariant=[encoder.chunks_number_of_bits + encoder.number_of_bits
                       >= old(encoder.chunks_number_of_bits) + old(encoder.number_of_bits)])
    loop(1, invariant=[encoder.chunks_number_of_bits + encoder.number_of_bits >= g_hdr,
                       g_hdr >= old(encoder.chunks_number_of_bits) + old(encoder.number_of_bits)])


@contract("ArrayType.decode", props=["C05", "C01", "C16", "C08"], for_class="any")
def _(self, decoder: Obj("Decoder")):
    refines("Type.decode")
    opaque("ld_size", "ld_val", "ld_bad")
    loop(0, invariant=[decoder.number_of_bits <= old(decoder.number_of_bits), decoder.value == old(decoder.value),
                       decoder.total_number_of_bits == old(decoder.total_number_of_bits)])


fields("OctetString", minimum=Union(Int, Lit('MIN'), NoneT), maximum=Union(Int, Lit('MAX'), NoneT),
       has_extension_marker=Bool, number_of_bits=Opt(Nat))
invariant("OctetString", implies(self.number_of_bits is not None,
                                 py_is_int(self.minimum) and py_is_int(self.maximum) and 0 <= self.minimum
                                 and self.minimum <= self.maximum and self.maximum <= 65535
                                 and self.number_of_bits == blen(self.maximum - self.minimum)))


@contract("OctetString.encode", props=["C05", "C01"], label="aligned")
def _(self, data: Bytes, encoder: Obj("Encoder")):
    refines("Type.encode")
    # X.691 17 (aligned): a fixed size of at most two octets is a plain bit field; a larger fixed size is octet
    # aligned; a bounded size is the count as a constrained whole number, then the octet-aligned octets
    requires(encoder.number_of_bits <= 3000)
    requires(implies(self.number_of_bits is not None and not self.has_extension_marker,
                     self.minimum <= len(data) and len(data) <= self.maximum))      # established by check_constraints (C11)
    use(blen_upper(len(data) - self.minimum))
    use(blen_mono(len(data) - self.minimum, self.maximum - self.minimum))
    use(blen_le(self.maximum - self.minimum, 16))
    use(pow2_mono(blen(len(data) - self.minimum), blen(self.maximum - self.minimum)))
    assigns(encoder)
    ensures(implies(not self.has_extension_marker and self.number_of_bits is not None and self.minimum == self.maximum
                    and self.maximum <= 2,
                    encoder.number_of_bits == old(encoder.number_of_bits) + 8 * len(data)
                    and encoder.value == old(encoder.value) * pow2(8 * len(data)) + be_val(list(data))))
    ensures(implies(not self.has_extension_marker and self.number_of_bits is not None and self.minimum == self.maximum
                    and self.maximum > 2,
                    encoder.number_of_bits == old(encoder.number_of_bits)
                    + (8 - (old(encoder.chunks_number_of_bits) + old(encoder.number_of_bits)) % 8) % 8 + 8 * len(data)))
    ensures(implies(not self.has_extension_marker and self.number_of_bits is not None,
                    self.maximum <= 2 and self.minimum == self.maximum
                    or (encoder.chunks_number_of_bits + encoder.number_of_bits) % 8 == 0))


@contract("OctetString.decode", props=["C05", "C01", "C16", "C08"], label="aligned")
def _(self, decoder: Obj("Decoder")) -> Bytes:
    # the mirror image of encode: the same alignment decisions, every read checked (C16)
    opaque("ld_size", "ld_val", "ld_bad")
    raises(OutOfDataError)
    raises(DecodeError)
    assigns(decoder)
    ensures(decoder.number_of_bits <= old(decoder.number_of_bits) and decoder.value == old(decoder.value))
    ensures(implies(not self.has_extension_marker and self.number_of_bits is not None and self.minimum == self.maximum
                    and self.maximum <= 2,
                    len(result) == self.minimum
                    and decoder.number_of_bits == old(decoder.number_of_bits) - 8 * self.minimum))
    ensures(implies(not self.has_extension_marker and self.number_of_bits is not None and self.minimum == self.maximum
                    and self.maximum > 2,
                    len(result) == self.minimum
                    and decoder.number_of_bits == old(decoder.number_of_bits) - old(decoder.number_of_bits) % 8
                    - 8 * self.minimum))


fields("BitString", minimum=Union(Int, Lit('MIN'), NoneT), maximum=Union(Int, Lit('MAX'), NoneT),
       has_extension_marker=Bool, number_of_bits=Opt(Nat), has_named_bits=Bool)
invariant("BitString", implies(self.number_of_bits is not None,
                               py_is_int(self.minimum) and py_is_int(self.maximum) and 0 <= self.minimum
                               and self.minimum <= self.maximum and self.maximum <= 65535
                               and self.number_of_bits == blen(self.maximum - self.minimum)))


@contract("asn1tools/codecs/compiler.py", "rstrip_bit_string_zeros", abstract=True)
def _(data: ByteArray) -> Tup(ByteArray, Nat):
    # assumed (bytes.rstrip is not modelled): trailing zero octets and bits removed
    ensures(len(result[0]) <= len(data) and result[1] <= 8 * len(result[0]) and result[1] > 8 * len(result[0]) - 8)


@contract("BitString.rstrip_zeros", props=["C05", "C01", "C12"])
def _(self, data: Bytes, number_of_bits: Nat) -> Tup(ByteArray, Nat):
    # named bits: trailing zero bits are removed, but never below a finite lower size bound (X.691 16.2/16.3); an open
    # lower bound (None / 'MIN') is no bound -- never a TypeError (F26)
    requires(self.minimum is None or self.minimum == 'MIN' or (0 <= self.minimum and self.minimum <= 65535))
    ensures(implies(py_is_int(self.minimum), result[1] >= self.minimum))
    ensures(result[1] <= 8 * len(result[0]))


@contract("BitString.encode_unbound", abstract=True)
def _(self, data: Bytes, number_of_bits: Nat, encoder: Obj("Encoder")):
    # assumed (generator based fragment loop, outside the subset): only appends
    assigns(encoder)
    ensures(encoder.chunks_number_of_bits + encoder.number_of_bits
            >= old(encoder.chunks_number_of_bits) + old(encoder.number_of_bits))


@contract("Encoder.append_bits", props=["C05", "C01"])
def _(self, data: Bytes, number_of_bits: Nat):
    # the first number_of_bits bits of data (most significant first)
    requires(number_of_bits <= 8 * len(data) and self.number_of_bits <= 4096)
    use(be_val_bound(data))
    use(shift_bound(be_val(list(data)), 8 * len(data) - number_of_bits, number_of_bits))
    assigns(self)
    ensures(self.number_of_bits == old(self.number_of_bits) + number_of_bits)
    ensures(self.chunks_number_of_bits == old(self.chunks_number_of_bits))
    ensures(self.value == old(self.value) * pow2(number_of_bits) + be_val(list(data)) // pow2(8 * len(data) - number_of_bits))


@contract("BitString.decode", props=["C05", "C01", "C16", "C08"], label="aligned")
def _(self, decoder: Obj("Decoder")) -> Tup(Bytes, Nat):
    # X.691 16 (aligned): a fixed size of at most 16 bits is a plain bit field, a larger fixed size is octet aligned;
    # a bounded size is the count as a constrained whole number, then the octet-aligned bits; every read is checked
    raises(OutOfDataError)
    raises(DecodeError)
    raises(NotImplementedError)
    assigns(decoder)
    ensures(decoder.number_of_bits <= old(decoder.number_of_bits) and decoder.value == old(decoder.value))
    ensures(implies(not self.has_extension_marker and self.number_of_bits is not None and self.minimum == self.maximum
                    and self.minimum <= 16,
                    result[1] == self.minimum
                    and decoder.number_of_bits == old(decoder.number_of_bits) - self.minimum))
    ensures(implies(not self.has_extension_marker and self.number_of_bits is not None and self.minimum == self.maximum
                    and self.minimum > 16,
                    result[1] == self.minimum
                    and decoder.number_of_bits == old(decoder.number_of_bits) - old(decoder.number_of_bits) % 8
                    - self.minimum))


@contract("Choice.decode_root", props=["C05", "C12", "C16", "C08", "C01"])
def _(self, decoder: Obj("Decoder")) -> Tup(Str, Val):
    # X.691 23.6: the index of the alternative among the root alternatives (no bits if there is only one), then the
    # alternative; an index that names no alternative is a decode error; an error inside the alternative is located at it
    opaque("ld_size", "ld_val", "ld_bad")
    inline("Choice.decode_root_index")
    requires(self.number_of_indefinite_bits is None and self.root_number_of_bits <= 16 and self.maximum >= 0)
    raises(DecodeError)
    raises(UnicodeDecodeError)
    raises(ValueError)
    raises(IndexError)
    raises(NotImplementedError)
    assigns(decoder)
    ensures(decoder.number_of_bits <= old(decoder.number_of_bits) and decoder.value == old(decoder.value))


@contract("Choice.encode_root", props=["C05", "C12", "C01"])
def _(self, data: Tup(Str, Val), encoder: Obj("Encoder")):
    # an alternative that is not a root alternative is the library's encode error (never a KeyError); an error inside the
    # alternative is located at it (C12)
    requires(encoder.number_of_bits <= 3000)
    inline("Choice.encode_root_index")
    requires(self.number_of_indefinite_bits is None and self.root_number_of_bits <= 16)
    assumes("class invariant of Choice (established by __init__): root indexes are 0..maximum and fit root_number_of_bits, "
            "and every root index has a member",
            implies(data[0] in self.root_name_to_index,
                    self.root_name_to_index[data[0]] <= self.maximum
                    and self.root_name_to_index[data[0]] < pow2(self.root_number_of_bits)
                    and self.root_name_to_index[data[0]] in self.root_index_to_member))
    raises(EncodeError, ensures=[implies(data[0] in self.root_name_to_index,
                                         located_at(exc, self.root_index_to_member[self.root_name_to_index[data[0]]]))])
    raises(OverflowError)
    raises(UnicodeEncodeError)
    raises(ValueError)
    assigns(encoder)
    ensures(data[0] in self.root_name_to_index)
    ensures(encoder.chunks_number_of_bits + encoder.number_of_bits
            >= old(encoder.chunks_number_of_bits) + old(encoder.number_of_bits))


@contract("Choice.encode_additions", props=["C05", "C12", "C07", "C01"])
def _(self, data: Tup(Str, Val), encoder: Obj("Encoder")):
    # X.691 23.8: normally small index, then the alternative as an open type: padded to whole octets, preceded by its
    # length in octets.  An unknown alternative is the library's encode error; an error inside it is located at it
    requires(self.additions_index_to_member is not None and self.additions_name_to_index is not None)
    requires(encoder.number_of_bits <= 3000)
    assumes("class invariant of Choice (established by __init__): every addition index has a member; fewer than 64 "
            "extension alternatives (the normally small number is then 7 bits)",
            implies(data[0] in self.additions_name_to_index,
                    self.additions_name_to_index[data[0]] in self.additions_index_to_member
                    and self.additions_name_to_index[data[0]] < 64))
    raises(EncodeError, ensures=[implies(data[0] in self.additions_name_to_index,
                                         located_at(exc, self.additions_index_to_member[self.additions_name_to_index[data[0]]]))])
    raises(OverflowError)
    raises(UnicodeEncodeError)
    raises(ValueError)
    assigns(encoder)
    ensures(data[0] in self.additions_name_to_index)


@contract("Encoder.__iadd__", abstract=True)
def _(self, other: Obj("Encoder")) -> Obj("Encoder"):
    # assumed (the chunk list is not tracked): appends all bits of the other encoder
    assigns(self)
    ensures(result is self)
    ensures(self.chunks_number_of_bits + self.number_of_bits
            == old(self.chunks_number_of_bits) + old(self.number_of_bits) + other.chunks_number_of_bits + other.number_of_bits)


@contract("Boolean.encode", props=["C05", "C01"])
def _(self, data: Bool, encoder: Obj("Encoder")):
    refines("Type.encode")
    # X.691 12: one bit, 1 for TRUE
    ensures(encoder.number_of_bits == old(encoder.number_of_bits) + 1
            and encoder.value == 2 * old(encoder.value) + (1 if data else 0)
            and encoder.chunks_number_of_bits == old(encoder.chunks_number_of_bits))


@contract("Boolean.decode", props=["C05", "C01", "C16", "C08"])
def _(self, decoder: Obj("Decoder")) -> Bool:
    refines("Type.decode")
    raises_iff(OutOfDataError, decoder.number_of_bits == 0)
    ensures(decoder.number_of_bits == old(decoder.number_of_bits) - 1)
    ensures(result == (bits_val(decoder.value[decoder.total_number_of_bits - old(decoder.number_of_bits):
                                               decoder.total_number_of_bits - old(decoder.number_of_bits) + 1]) != 0))
