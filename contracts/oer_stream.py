FILE = "asn1tools/codecs/oer.py"

fields("Encoder", number_of_bits=Nat, value=Nat)
mutable("Encoder", "number_of_bits", "value")
invariant("Encoder", self.number_of_bits >= 0, 0 <= self.value, self.value < pow2(self.number_of_bits))
fixup("Encoder", "self.number_of_bits %= 4200\nself.value = self.value % (1 << self.number_of_bits)")

fields("Decoder", number_of_bits=Nat, total_number_of_bits=Nat, value=Nat)
mutable("Decoder", "number_of_bits", "value")
invariant("Decoder", 0 <= self.number_of_bits, self.number_of_bits <= self.total_number_of_bits,
          0 <= self.value, self.value < pow2(self.total_number_of_bits))
fixup("Decoder", "self.total_number_of_bits %= 4200\nself.number_of_bits = min(self.number_of_bits, self.total_number_of_bits)\nself.value = self.value % (1 << self.total_number_of_bits)")

fields("asn1tools/codecs/__init__.py", "OutOfDataError", offset=Int)


# ------------------------------------------------------------------------------------------------ encoder
@contract("Encoder.append_non_negative_binary_integer", props=["C06", "C01"])
def _(self, value: Nat, number_of_bits: Nat):
    # the single most important precondition of the bit codecs: a too-large value silently corrupts earlier bits
    requires(value < pow2(number_of_bits))
    use(cat_bound(self.value, self.number_of_bits, value, number_of_bits))
    assigns(self)
    ensures(self.number_of_bits == old(self.number_of_bits) + number_of_bits)
    ensures(self.value == old(self.value) * pow2(number_of_bits) + value)


@contract("Encoder.append_bit", props=["C06", "C01"])
def _(self, bit: Nat):
    requires(bit <= 1)
    use(cat_bound(self.value, self.number_of_bits, bit, 1))
    assigns(self)
    ensures(self.number_of_bits == old(self.number_of_bits) + 1 and self.value == 2 * old(self.value) + bit)


@contract("Encoder.append_u8", props=["C06", "C01"])
def _(self, value: Nat):
    requires(value <= 255)
    assigns(self)
    ensures(self.number_of_bits == old(self.number_of_bits) + 8 and self.value == 256 * old(self.value) + value)


@contract("Encoder.align", props=["C06", "C01"])
def _(self):
    use_post(cat_bound(old(self.value), old(self.number_of_bits), 0, self.number_of_bits - old(self.number_of_bits)))
    inline("Encoder.number_of_bytes")
    assigns(self)
    ensures(self.number_of_bits == 8 * ((old(self.number_of_bits) + 7) // 8))
    ensures(self.value == old(self.value) * pow2(self.number_of_bits - old(self.number_of_bits)))


# ------------------------------------------------------------------------------------------------ decoder
@contract("Decoder.number_of_read_bits", props=["C06", "C16"])
def _(self) -> Int:
    ensures(result == self.total_number_of_bits - self.number_of_bits)


@contract("Decoder.read_non_negative_binary_integer", props=["C06", "C16", "C08", "C01"])
def _(self, number_of_bits: Int) -> Nat:
    # checked read: with fewer bits left the library's OutOfDataError is raised and nothing is consumed
    raises_iff(OutOfDataError, number_of_bits > self.number_of_bits,
               ensures=[self.number_of_bits == old(self.number_of_bits), self.value == old(self.value)])
    # a negative count (only reachable from a malformed length field) is a ValueError (negative shift count)
    raises_iff(ValueError, number_of_bits < 0)
    assigns(self)
    ensures(self.number_of_bits == old(self.number_of_bits) - number_of_bits and self.value == old(self.value))
    ensures(result == (self.value // pow2(self.number_of_bits)) % pow2(number_of_bits))
    ensures(result < pow2(number_of_bits))


@contract("Decoder.read_bit", props=["C06", "C16", "C08"])
def _(self) -> Nat:
    raises_iff(OutOfDataError, self.number_of_bits == 0,
               ensures=[self.number_of_bits == old(self.number_of_bits), self.value == old(self.value)])
    assigns(self)
    ensures(self.number_of_bits == old(self.number_of_bits) - 1 and self.value == old(self.value))
    ensures(result == (self.value // pow2(self.number_of_bits)) % 2)


@contract("Decoder.read_byte", props=["C06", "C16", "C08"])
def _(self) -> Nat:
    raises_iff(OutOfDataError, self.number_of_bits < 8,
               ensures=[self.number_of_bits == old(self.number_of_bits), self.value == old(self.value)])
    assigns(self)
    ensures(self.number_of_bits == old(self.number_of_bits) - 8 and self.value == old(self.value))
    ensures(result == (self.value // pow2(self.number_of_bits)) % 256 and result <= 255)


@contract("Decoder.skip_bits", props=["C06", "C16", "C08", "C07"])
def _(self, number_of_bits: Nat):
    raises_iff(OutOfDataError, number_of_bits > self.number_of_bits,
               ensures=[self.number_of_bits == old(self.number_of_bits)])
    assigns(self)
    ensures(self.number_of_bits == old(self.number_of_bits) - number_of_bits and self.value == old(self.value))


@contract("Decoder.align", props=["C06", "C16", "C08"])
def _(self):
    assigns(self)
    ensures(self.number_of_bits == old(self.number_of_bits) - old(self.number_of_bits) % 8 and self.value == old(self.value))


@contract("Decoder.read_length_determinant", props=["C06", "C16", "C08", "C07"])
def _(self) -> Nat:
    # X.696 8.6: exact value and exact consumption as functions of the unread bits
    raises_iff(OutOfDataError, self.number_of_bits < 8 or self.number_of_bits < oer_ld_size(self.value, self.number_of_bits))
    assigns(self)
    ensures(self.value == old(self.value))
    ensures(self.number_of_bits == old(self.number_of_bits) - oer_ld_size(self.value, old(self.number_of_bits)))
    ensures(result == oer_ld_val(self.value, old(self.number_of_bits)))
    ensures(result >= 0)


@contract("Decoder.read_unsigned_integer", props=["C06", "C16", "C08"])
def _(self) -> Nat:
    raises(OutOfDataError)
    assigns(self)
    ensures(self.value == old(self.value))
    ensures(self.number_of_bits < old(self.number_of_bits))
    ensures(self.number_of_bits == old(self.number_of_bits) - oer_ld_size(self.value, old(self.number_of_bits))
            - 8 * oer_ld_val(self.value, old(self.number_of_bits)))


@contract("Decoder.read_integer", props=["C06", "C16", "C08"])
def _(self) -> Int:
    raises(OutOfDataError)
    # a zero length determinant is not a valid INTEGER encoding; the decoder then fails on a negative shift count
    raises(ValueError)
    assigns(self)
    ensures(self.value == old(self.value))
    ensures(self.number_of_bits == old(self.number_of_bits) - oer_ld_size(self.value, old(self.number_of_bits))
            - 8 * oer_ld_val(self.value, old(self.number_of_bits)))
    ensures(self.number_of_bits < old(self.number_of_bits))


@contract("Decoder.read_tag", props=["C06", "C16", "C08", "C07"])
def _(self) -> Bytes:
    # X.696 8.7: exact consumption as a function of the unread bits
    raises(OutOfDataError)
    assigns(self)
    ensures(self.number_of_bits < old(self.number_of_bits) and self.value == old(self.value) and len(result) >= 1)
    ensures(self.number_of_bits == old(self.number_of_bits) - 8 * oer_tag_len(self.value, old(self.number_of_bits)))
    ensures(len(result) == oer_tag_len(self.value, old(self.number_of_bits)))
    loop(0, invariant=[self.number_of_bits <= old(self.number_of_bits) - 8, self.value == old(self.value),
                       self.total_number_of_bits == old(self.total_number_of_bits),
                       8 * len(tag) == old(self.number_of_bits) - self.number_of_bits,
                       oer_tag_len(self.value, old(self.number_of_bits))
                       == len(tag) + oer_tag_cont(self.value, self.number_of_bits)],
         decreases=self.number_of_bits)


@contract("Decoder.peek_bit", props=["C06", "C16", "C08"])
def _(self) -> Nat:
    # a checked read like every other primitive: out of data is the library's error, never a foreign exception
    raises_iff(OutOfDataError, self.number_of_bits == 0)
    ensures(result == (self.value // pow2(self.number_of_bits - 1)) % 2)
    ensures(self.number_of_bits == old(self.number_of_bits) and self.value == old(self.value))


@contract("Encoder.append_bytes", props=["C06", "C01"])
def _(self, data: Bytes):
    use(be_val_bound(data))
    inline("Encoder.append_bits")
    assigns(self)
    ensures(self.number_of_bits == old(self.number_of_bits) + 8 * len(data))
    ensures(self.value == old(self.value) * pow2(8 * len(data)) + be_val(list(data)))


@contract("Encoder.append_unsigned_integer", props=["C06", "C01"])
def _(self, value: Nat):
    # X.696 10.3 (no upper bound): length determinant + the minimal number of octets of the value
    raises(EncodeError, when=need8(need8(value)) > 127)
    use(blen_upper(value))
    use(pow2_mono(blen(value), 8 * need8(value)))
    assigns(self)
    ensures(self.number_of_bits > old(self.number_of_bits))
    ensures((self.number_of_bits - old(self.number_of_bits)) % 8 == 0)


@contract("Encoder.append_length_determinant", props=["C06", "C01"])
def _(self, value: Nat):
    raises(EncodeError, when=need8(value) > 127, ensures=[len(exc.location) == 0])
    assigns(self)
    ensures(implies(value < 128, self.number_of_bits == old(self.number_of_bits) + 8
                    and self.value == 256 * old(self.value) + value))
    ensures(implies(value >= 128, self.number_of_bits == old(self.number_of_bits) + 8 + 8 * need8(value)
                    and self.value == (256 * old(self.value) + 128 + need8(value)) * pow2(8 * need8(value)) + value))
    loop(0, invariant=[value >= 0, old(value) >= 128, lv(list(encoded), value) == old(value),
                       self.value == old(self.value) and self.number_of_bits == old(self.number_of_bits),
                       (value > 0 and blen(value) + 8 * len(encoded) == blen(old(value)))
                       or (value == 0 and len(encoded) == (blen(old(value)) + 7) // 8)],
         decreases=value,
         use=[blen_small(value), blen_div256(value)],
         use_step=[lv_snoc(list(at_head(encoded)), at_head(value))])
    at_stmt("self.append_bytes(encoded[::-1])", use=[be_val_rev(list(encoded))])


@contract("Decoder.read_bits", props=["C06", "C16", "C08"])
def _(self, number_of_bits: Int) -> Bytes:
    # assumed contract of hex()/unhexlify on the 0x80-prefixed number: hex80_bytes (spec/x696.py)
    raises_iff(OutOfDataError, number_of_bits > self.number_of_bits,
               ensures=[self.number_of_bits == old(self.number_of_bits), self.value == old(self.value)])
    requires(number_of_bits % 8 == 0)         # only whole octets are read this way (read_bytes)
    raises_iff(ValueError, number_of_bits < 0)
    use(hex80_axiom((self.value // pow2(self.number_of_bits - number_of_bits)) % pow2(number_of_bits),
                    number_of_bits // 8))
    assigns(self)
    ensures(self.number_of_bits == old(self.number_of_bits) - number_of_bits and self.value == old(self.value))
    ensures(len(result) == number_of_bits // 8)
    ensures(be_val(list(result)) == (self.value // pow2(self.number_of_bits)) % pow2(number_of_bits))


@contract("Decoder.read_bytes", props=["C06", "C16", "C08"])
def _(self, number_of_bytes: Int) -> Bytes:
    raises_iff(OutOfDataError, 8 * number_of_bytes > self.number_of_bits,
               ensures=[self.number_of_bits == old(self.number_of_bits), self.value == old(self.value)])
    raises_iff(ValueError, number_of_bytes < 0)
    assigns(self)
    ensures(self.number_of_bits == old(self.number_of_bits) - 8 * number_of_bytes and self.value == old(self.value))
    ensures(len(result) == number_of_bytes)
    ensures(be_val(list(result)) == (self.value // pow2(self.number_of_bits)) % pow2(8 * number_of_bytes))


@contract("Encoder.number_of_bytes", props=["C06"])
def _(self) -> Int:
    ensures(result == (self.number_of_bits + 7) // 8)


@contract("Encoder.__iadd__", props=["C06", "C01"])
def _(self, other: Obj("Encoder")) -> Obj("Encoder"):
    use(cat_bound(self.value, self.number_of_bits, other.value, other.number_of_bits))
    assigns(self)
    ensures(result is self)
    ensures(self.number_of_bits == old(self.number_of_bits) + other.number_of_bits)
    ensures(self.value == old(self.value) * pow2(other.number_of_bits) + other.value)


@contract("Encoder.append_integer", props=["C06", "C01"])
def _(self, value: Int):
    # X.696 10.4: length determinant + minimal two's complement octets (only the octet structure is stated here)
    requires(-pow2(1000) < value and value < pow2(1000))
    use(blen_upper(abs_(value)))
    use(blen_le(abs_(value), 1000))
    use(pow2_mono(blen(abs_(value)), 8 * ((blen(abs_(value)) + 7) // 8)))
    use(pow2_8((blen(abs_(value)) + 7) // 8 + 1))
    use(pow2_add(8 * ((blen(abs_(value)) + 7) // 8) - 1, 1))
    use(blen_le((blen(abs_(value)) + 7) // 8, 8))
    use(blen_le((blen(abs_(value)) + 7) // 8 + 1, 8))
    raises(EncodeError, when=False)
    assigns(self)
    ensures(self.number_of_bits >= old(self.number_of_bits) + 16 and (self.number_of_bits - old(self.number_of_bits)) % 8 == 0)


@contract("Encoder.set_bit", props=["C06", "C01"])
def _(self, offset: Nat):
    # back-patches one bit (ENUMERATED long form marker): the bit string keeps its length
    requires(offset < self.number_of_bits)
    use(bor_bound(self.value, pow2(self.number_of_bits - offset - 1), self.number_of_bits))
    use(pow2_mono(self.number_of_bits - offset, self.number_of_bits))
    use(pow2_add(self.number_of_bits - offset - 1, 1))
    assigns(self)
    ensures(self.number_of_bits == old(self.number_of_bits) and self.value >= old(self.value))


@contract("Decoder.clear_bit", props=["C06", "C16", "C08"])
def _(self):
    # clears the next unread bit (and drops the bits already read, which are never looked at again)
    requires(self.number_of_bits >= 1)
    assigns(self)
    ensures(self.number_of_bits == old(self.number_of_bits) and self.value == old(self.value) % pow2(self.number_of_bits - 1))
    ensures(self.value <= old(self.value))
