FILE = "asn1tools/codecs/uper.py"

fields("Integer", minimum=Opt(Int), maximum=Opt(Int), has_extension_marker=Opt(Bool), number_of_bits=Opt(Int),
       root_minimum=Union(Int, Lit('MIN'), NoneT), root_maximum=Union(Int, Lit('MAX'), NoneT))
invariant("Integer", (self.number_of_bits is None) == (self.minimum is None),
          (self.minimum is None) == (self.maximum is None),
          implies(self.minimum is not None, self.root_minimum == self.minimum and self.root_maximum == self.maximum),
          implies(self.number_of_bits is not None,
                  self.minimum <= self.maximum and self.number_of_bits == blen(self.maximum - self.minimum)))
fixup("Integer", "import random\nif self.minimum is None or self.maximum is None:\n    self.minimum = self.maximum = self.number_of_bits = None\nelse:\n    self.minimum, self.maximum = min(self.minimum, self.maximum), max(self.minimum, self.maximum)\n    self.number_of_bits = (self.maximum - self.minimum).bit_length()\n    self.root_minimum, self.root_maximum = self.minimum, self.maximum")


@contract("asn1tools/codecs/per.py", "integer_as_number_of_bits", props=["C05"])
def _(size: Nat) -> Nat:
    ensures(result == blen(size))


@contract("Integer.set_restricted_to_range", props=["C05", "C01"])
def _(self, minimum: IntOrMin, maximum: IntOrMax, has_extension_marker: Bool):
    # X.691 11.5.6 (unaligned): a finite range lb..ub uses the minimal number of bits for ub - lb
    requires(self.number_of_bits is None and self.minimum is None and self.maximum is None)
    requires(minimum == 'MIN' or maximum == 'MAX' or minimum <= maximum)
    no_invariant()
    assigns(self)
    ensures(self.has_extension_marker == has_extension_marker)
    ensures(self.root_minimum == minimum and self.root_maximum == maximum)
    ensures(implies(minimum != 'MIN' and maximum != 'MAX',
                    self.minimum == minimum and self.maximum == maximum and self.number_of_bits == blen(maximum - minimum)))
    ensures(implies(minimum == 'MIN' or maximum == 'MAX',
                    self.minimum is None and self.maximum is None and self.number_of_bits is None))


@contract("Integer.encode", props=["C05", "C01", "C12"])
def _(self, data: Int, encoder: Obj("Encoder")):
    refines("asn1tools/codecs/per.py::Type.encode")
    # X.691 13: extension bit (0 = inside the root) when extensible; root: constrained whole number of blen(ub-lb)
    # bits for a finite range, otherwise (or outside the root) an unconstrained whole number
    requires(encoder.number_of_bits <= 3900)
    requires(self.has_extension_marker is not None)
    requires(-pow2(1000) < data and data < pow2(1000))         # no INTEGER value of 1000 bits exists in practice
    requires(implies(self.number_of_bits is not None and not self.has_extension_marker,
                     self.minimum <= data and data <= self.maximum))          # established by check_constraints (C11)
    use(blen_upper(data - self.minimum))
    use(blen_upper(self.maximum - self.minimum))
    use(blen_mono(data - self.minimum, self.maximum - self.minimum))
    use(pow2_mono(blen(data - self.minimum), blen(self.maximum - self.minimum)))
    raises(EncodeError, when=False)
    assigns(encoder)
    # X.691 13.2.4 / 11.7: with a lower bound only (lb..MAX) the value is a *semi-constrained* whole number: n - lb as a
    # non-negative binary integer in the minimum number of octets behind a length determinant.  The code encodes n
    # itself as an unconstrained (two's complement) whole number instead: known finding F25.
    known("F25", py_is_int(self.root_minimum) and not py_is_int(self.root_maximum))
    ensures(implies(not self.has_extension_marker and py_is_int(self.root_minimum) and not py_is_int(self.root_maximum)
                    and self.root_minimum <= data and data - self.root_minimum < 256,
                    encoder.number_of_bits == old(encoder.number_of_bits) + 16
                    and encoder.value == old(encoder.value) * 65536 + 256 + (data - self.root_minimum)))
    ensures(implies(self.number_of_bits is not None and not self.has_extension_marker,
                    encoder.number_of_bits == old(encoder.number_of_bits) + self.number_of_bits
                    and encoder.value == old(encoder.value) * pow2(self.number_of_bits) + (data - self.minimum)))
    ensures(implies(self.number_of_bits is not None and self.has_extension_marker
                    and self.minimum <= data and data <= self.maximum,
                    encoder.number_of_bits == old(encoder.number_of_bits) + 1 + self.number_of_bits
                    and encoder.value == 2 * old(encoder.value) * pow2(self.number_of_bits) + (data - self.minimum)))


@contract("Integer.decode", props=["C05", "C01", "C16", "C08"])
def _(self, decoder: Obj("Decoder")) -> Int:
    requires(self.has_extension_marker is not None)
    requires(self.number_of_bits is None or self.number_of_bits >= 0)
    raises(OutOfDataError)
    raises(DecodeError)
    raises(ValueError)        # unconstrained whole number with a zero length determinant (not a valid encoding)
    assigns(decoder)
    ensures(decoder.number_of_bits <= old(decoder.number_of_bits))
    ensures(implies(self.number_of_bits is not None and not self.has_extension_marker,
                    decoder.number_of_bits == old(decoder.number_of_bits) - self.number_of_bits
                    and result >= self.minimum and result < self.minimum + pow2(self.number_of_bits)))


fields("OctetString", minimum=Union(Int, Lit('MIN'), NoneT), maximum=Union(Int, Lit('MAX'), NoneT),
       has_extension_marker=Bool, number_of_bits=Opt(Nat))
invariant("OctetString", implies(self.number_of_bits is not None,
                                 py_is_int(self.minimum) and py_is_int(self.maximum) and 0 <= self.minimum
                                 and self.minimum <= self.maximum and self.maximum <= 65535
                                 and self.number_of_bits == blen(self.maximum - self.minimum)))
fields("BitString", minimum=Opt(Int), maximum=Opt(Int), has_extension_marker=Bool, number_of_bits=Opt(Nat),
       has_named_bits=Bool)
invariant("BitString", implies(self.number_of_bits is not None,
                               self.minimum is not None and self.maximum is not None and 0 <= self.minimum
                               and self.minimum <= self.maximum and self.maximum <= 65535
                               and self.number_of_bits == blen(self.maximum - self.minimum)))


@contract("asn1tools/codecs/per.py", "OctetString.decode_unbound", abstract=True)
def _(self, decoder: Obj("Decoder")) -> Bytes:
    # assumed (generator based fragment loop, outside the subset): checked reads only
    raises(OutOfDataError)
    raises(DecodeError)
    assigns(decoder)
    ensures(decoder.number_of_bits <= old(decoder.number_of_bits) and decoder.value == old(decoder.value))


@contract("asn1tools/codecs/per.py", "BitString.decode_unbound", abstract=True)
def _(self, decoder: Obj("Decoder")) -> Tup(Bytes, Nat):
    raises(OutOfDataError)
    raises(DecodeError)
    assigns(decoder)
    ensures(decoder.number_of_bits <= old(decoder.number_of_bits) and decoder.value == old(decoder.value))


@contract("OctetString.decode", props=["C05", "C16", "C08", "C01"])
def _(self, decoder: Obj("Decoder")) -> Bytes:
    # X.691 17 (unaligned): fixed size: exactly `size` octets and no length; bounded size: a length field of
    # blen(ub - lb) bits holding n - lb, then n octets; every read is checked (truncation -> OutOfDataError, C16)
    opaque("ld_size", "ld_val", "ld_bad")
    raises(OutOfDataError)
    raises(DecodeError)
    assigns(decoder)
    ensures(decoder.number_of_bits <= old(decoder.number_of_bits) and decoder.value == old(decoder.value))
    ensures(implies(not self.has_extension_marker and self.number_of_bits is not None and self.minimum == self.maximum,
                    len(result) == self.minimum
                    and decoder.number_of_bits == old(decoder.number_of_bits) - 8 * self.minimum))
    ensures(implies(not self.has_extension_marker and self.number_of_bits is not None and self.minimum != self.maximum,
                    len(result) == self.minimum
                    + bits_val(decoder.value[decoder.total_number_of_bits - old(decoder.number_of_bits):
                                             decoder.total_number_of_bits - old(decoder.number_of_bits) + self.number_of_bits])
                    and decoder.number_of_bits == old(decoder.number_of_bits) - self.number_of_bits - 8 * len(result)))


@contract("BitString.decode", props=["C05", "C16", "C08", "C01"])
def _(self, decoder: Obj("Decoder")) -> Tup(Bytes, Nat):
    # X.691 16 (unaligned): fixed size: exactly `size` bits; bounded size: length field then that many bits
    raises(OutOfDataError)
    raises(DecodeError)
    raises(NotImplementedError)
    assigns(decoder)
    ensures(decoder.number_of_bits <= old(decoder.number_of_bits) and decoder.value == old(decoder.value))
    ensures(implies(not self.has_extension_marker and self.number_of_bits is not None and self.minimum == self.maximum,
                    result[1] == self.minimum and len(result[0]) == (self.minimum + 7) // 8
                    and decoder.number_of_bits == old(decoder.number_of_bits) - self.minimum))
    ensures(implies(not self.has_extension_marker and self.number_of_bits is not None and self.minimum != self.maximum,
                    result[1] == self.minimum
                    + bits_val(decoder.value[decoder.total_number_of_bits - old(decoder.number_of_bits):
                                             decoder.total_number_of_bits - old(decoder.number_of_bits) + self.number_of_bits])
                    and decoder.number_of_bits == old(decoder.number_of_bits) - self.number_of_bits - result[1]))


@contract("asn1tools/codecs/per.py", "is_in_size_range", props=["C05", "C01", "C12"])
def _(minimum: Union(Int, Lit('MIN'), NoneT), maximum: Union(Int, Lit('MAX'), NoneT), size: Int) -> Bool:
    # total on open bounds: never a TypeError from comparing a number with the 'MIN'/'MAX' sentinel (F24)
    ensures(result == in_size_range(minimum, maximum, size))


@contract("Encoder.align", props=["C05", "C01"])
def _(self):
    # unaligned PER: alignment is a no-op
    ensures(self.number_of_bits == old(self.number_of_bits) and self.value == old(self.value)
            and self.chunks_number_of_bits == old(self.chunks_number_of_bits))


@contract("Decoder.align", props=["C05", "C16", "C08"])
def _(self):
    ensures(self.number_of_bits == old(self.number_of_bits) and self.value == old(self.value))


@contract("asn1tools/codecs/per.py", "OctetString.encode_unbound", abstract=True)
def _(self, data: Bytes, encoder: Obj("Encoder")):
    # assumed (generator based fragment loop, outside the subset): only appends
    assigns(encoder)
    ensures(encoder.chunks_number_of_bits + encoder.number_of_bits
            >= old(encoder.chunks_number_of_bits) + old(encoder.number_of_bits))


@contract("OctetString.encode", props=["C05", "C01"])
def _(self, data: Bytes, encoder: Obj("Encoder")):
    refines("asn1tools/codecs/per.py::Type.encode")
    # X.691 17 (unaligned): fixed size: the octets, no length; bounded size: n - lb in blen(ub - lb) bits, then the
    # octets; outside an extensible root: extension bit 1, a general length determinant, the octets
    requires(encoder.number_of_bits <= 3000)
    requires(implies(self.number_of_bits is not None and not self.has_extension_marker,
                     self.minimum <= len(data) and len(data) <= self.maximum))      # established by check_constraints (C11)
    use(blen_upper(len(data) - self.minimum))
    use(blen_mono(len(data) - self.minimum, self.maximum - self.minimum))
    use(blen_le(self.maximum - self.minimum, 16))
    use(pow2_mono(blen(len(data) - self.minimum), blen(self.maximum - self.minimum)))
    assigns(encoder)
    ensures(implies(not self.has_extension_marker and self.number_of_bits is not None and self.minimum == self.maximum,
                    encoder.number_of_bits == old(encoder.number_of_bits) + 8 * len(data)
                    and encoder.value == old(encoder.value) * pow2(8 * len(data)) + be_val(list(data))))
    ensures(implies(not self.has_extension_marker and self.number_of_bits is not None and self.minimum != self.maximum,
                    encoder.number_of_bits == old(encoder.number_of_bits) + self.number_of_bits + 8 * len(data)
                    and encoder.value == (old(encoder.value) * pow2(self.number_of_bits) + (len(data) - self.minimum))
                    * pow2(8 * len(data)) + be_val(list(data))))
    ensures(implies(self.has_extension_marker and self.number_of_bits is not None
                    and self.minimum <= len(data) and len(data) <= self.maximum and self.minimum == self.maximum,
                    encoder.number_of_bits == old(encoder.number_of_bits) + 1 + 8 * len(data)))
    # outside the root of an extensible constraint (open bounds included): extension bit 1, general length, octets
    ensures(implies(self.has_extension_marker and not in_size_range(self.minimum, self.maximum, len(data))
                    and len(data) < 128,
                    encoder.number_of_bits == old(encoder.number_of_bits) + 1 + 8 + 8 * len(data)))


fields("KnownMultiplierStringType", minimum=Union(Int, Lit('MIN'), NoneT), maximum=Union(Int, Lit('MAX'), NoneT),
       has_extension_marker=Opt(Bool), number_of_bits=Opt(Nat), bits_per_character=Nat,
       permitted_alphabet=Obj("asn1tools/codecs/per.py", "PermittedAlphabet"), ENCODING=Str)
invariant("KnownMultiplierStringType",
          implies(self.number_of_bits is not None,
                  py_is_int(self.minimum) and py_is_int(self.maximum) and 0 <= self.minimum
                  and self.minimum <= self.maximum and self.maximum <= 65535
                  and self.number_of_bits == blen(self.maximum - self.minimum)))


@contract("asn1tools/codecs/per.py", "KnownMultiplierStringType.encode_unbound", abstract=True)
def _(self, data: Str, encoder: Obj("Encoder")):
    # assumed (generator based fragment loop, outside the subset): only appends
    raises(EncodeError)
    raises(UnicodeEncodeError)
    assigns(encoder)
    ensures(encoder.chunks_number_of_bits + encoder.number_of_bits
            >= old(encoder.chunks_number_of_bits) + old(encoder.number_of_bits))


@contract("KnownMultiplierStringType.encode", props=["C05", "C01"], for_class="any")
def _(self, data: Str, encoder: Obj("Encoder")):
    # X.691 30 (unaligned): extension bit 0 only for a length inside the root (a length outside the root is refused:
    # the extension form is not implemented -- never a silently corrupt encoding, F09); bounded size: n - lb in
    # blen(ub - lb) bits; then bits_per_character bits per character
    requires(encoder.number_of_bits <= 3000)
    requires(implies(self.number_of_bits is not None and not self.has_extension_marker,
                     self.minimum <= len(data) and len(data) <= self.maximum))      # established by check_constraints (C11)
    assumes("class invariant of PermittedAlphabet (established by the compiler): every code fits bits_per_character",
            forall(lambda v: implies(v in self.permitted_alphabet.encode_map,
                                     self.permitted_alphabet.encode_map[v] < pow2(self.bits_per_character))))
    use(blen_upper(len(data) - self.minimum))
    use(blen_mono(len(data) - self.minimum, self.maximum - self.minimum))
    use(blen_le(self.maximum - self.minimum, 16))
    use(pow2_mono(blen(len(data) - self.minimum), blen(self.maximum - self.minimum)))
    raises(EncodeError)
    raises(UnicodeEncodeError)
    raises(NotImplementedError, when=self.has_extension_marker is True
           and not in_size_range(self.minimum, self.maximum, len(data)))
    assigns(encoder)
    ghost_init(g_hdr=0)
    at_stmt("@loop0", set=dict(g_hdr=encoder.chunks_number_of_bits + encoder.number_of_bits))
    ensures(implies(self.number_of_bits is not None and self.minimum != self.maximum,
                    g_hdr == old(encoder.chunks_number_of_bits) + old(encoder.number_of_bits)
                    + (1 if self.has_extension_marker else 0) + self.number_of_bits))
    ensures(implies(self.number_of_bits is not None and self.minimum == self.maximum,
                    g_hdr == old(encoder.chunks_number_of_bits) + old(encoder.number_of_bits)
                    + (1 if self.has_extension_marker else 0)))
    loop(0, invariant=[encoder.chunks_number_of_bits + encoder.number_of_bits >= g_hdr])


@contract("asn1tools/codecs/per.py", "to_byte_array", props=["C05", "C08"])
def _(num: Nat, number_of_bits: Int) -> ByteArray:
    # ceil(number_of_bits / 8) octets of num, most significant first
    native(domain=number_of_bits <= 4096)      # generated inputs: the loop runs number_of_bits / 8 times
    ensures(len(result) == (0 if number_of_bits <= 0 else (number_of_bits + 7) // 8))
    loop(0, invariant=[num >= 0, len(byte_array) * 8 + number_of_bits == old(number_of_bits),
                       number_of_bits > -8 or (old(number_of_bits) <= 0 and len(byte_array) == 0)],
         decreases=number_of_bits)


@contract("asn1tools/codecs/per.py", "PermittedAlphabet.decode", props=["C05", "C12"])
def _(self, value: Nat) -> Nat:
    raises_iff(DecodeError, value not in self.decode_map)
    ensures(result == self.decode_map[value])


@contract("asn1tools/codecs/per.py", "KnownMultiplierStringType.decode_unbound", abstract=True)
def _(self, decoder: Obj("Decoder")) -> Str:
    raises(DecodeError)
    raises(UnicodeDecodeError)
    assigns(decoder)
    ensures(decoder.number_of_bits <= old(decoder.number_of_bits) and decoder.value == old(decoder.value))


@contract("KnownMultiplierStringType.decode", props=["C05", "C01", "C16", "C08"], for_class="any")
def _(self, decoder: Obj("Decoder")) -> Str:
    # every read is checked; an extension bit 1 is refused (not implemented); a code outside the permitted alphabet
    # is a decode error; exactly length * bits_per_character bits of characters are consumed
    raises(DecodeError)
    raises(UnicodeDecodeError)
    raises(NotImplementedError)
    assigns(decoder)
    ensures(decoder.number_of_bits <= old(decoder.number_of_bits) and decoder.value == old(decoder.value))
    ensures(implies(self.number_of_bits is not None and not self.has_extension_marker and self.minimum == self.maximum,
                    decoder.number_of_bits == old(decoder.number_of_bits) - self.minimum * self.bits_per_character))
    loop(0, invariant=[decoder.value == old(decoder.value), decoder.total_number_of_bits == old(decoder.total_number_of_bits),
                       decoder.number_of_bits == at_entry(decoder.number_of_bits, 0) - _i0 * self.bits_per_character,
                       _i0 <= length])
