FILE = "asn1tools/codecs/uper.py"

fields("Integer", minimum=Opt(Int), maximum=Opt(Int), has_extension_marker=Opt(Bool), number_of_bits=Opt(Int))
invariant("Integer", (self.number_of_bits is None) == (self.minimum is None),
          (self.minimum is None) == (self.maximum is None),
          implies(self.number_of_bits is not None,
                  self.minimum <= self.maximum and self.number_of_bits == blen(self.maximum - self.minimum)))
fixup("Integer", "import random\nif self.minimum is None or self.maximum is None:\n    self.minimum = self.maximum = self.number_of_bits = None\nelse:\n    self.minimum, self.maximum = min(self.minimum, self.maximum), max(self.minimum, self.maximum)\n    self.number_of_bits = (self.maximum - self.minimum).bit_length()")


@contract("asn1tools/codecs/per.py", "integer_as_number_of_bits", props=["C05"])
def _(size: Nat) -> Nat:
    ensures(result == blen(size))


@contract("Integer.set_restricted_to_range", props=["C05", "C01"])
def _(self, minimum: IntOrMin, maximum: IntOrMax, has_extension_marker: Bool):
    # X.691 11.5.6 (unaligned): a finite range lb..ub uses the minimal number of bits for ub - lb
    requires(self.number_of_bits is None and self.minimum is None and self.maximum is None)
    requires(minimum == 'MIN' or maximum == 'MAX' or minimum <= maximum)
    no_invariant()
    assigns(self)
    ensures(self.has_extension_marker == has_extension_marker)
    ensures(implies(minimum != 'MIN' and maximum != 'MAX',
                    self.minimum == minimum and self.maximum == maximum and self.number_of_bits == blen(maximum - minimum)))
    ensures(implies(minimum == 'MIN' or maximum == 'MAX',
                    self.minimum is None and self.maximum is None and self.number_of_bits is None))


@contract("Integer.encode", props=["C05", "C01", "C12"])
def _(self, data: Int, encoder: Obj("Encoder")):
    # X.691 13: extension bit (0 = inside the root) when extensible; root: constrained whole number of blen(ub-lb)
    # bits for a finite range, otherwise (or outside the root) an unconstrained whole number
    requires(encoder.number_of_bits <= 3900)
    requires(self.has_extension_marker is not None)
    requires(-pow2(1000) < data and data < pow2(1000))         # no INTEGER value of 1000 bits exists in practice
    requires(implies(self.number_of_bits is not None and not self.has_extension_marker,
                     self.minimum <= data and data <= self.maximum))          # established by check_constraints (C11)
    known("F22", self.has_extension_marker is True and self.minimum is None)
    use(blen_upper(data - self.minimum))
    use(blen_upper(self.maximum - self.minimum))
    use(blen_mono(data - self.minimum, self.maximum - self.minimum))
    use(pow2_mono(blen(data - self.minimum), blen(self.maximum - self.minimum)))
    raises(EncodeError, when=False)
    assigns(encoder)
    ensures(implies(self.number_of_bits is not None and not self.has_extension_marker,
                    encoder.number_of_bits == old(encoder.number_of_bits) + self.number_of_bits
                    and encoder.value == old(encoder.value) * pow2(self.number_of_bits) + (data - self.minimum)))
    ensures(implies(self.number_of_bits is not None and self.has_extension_marker
                    and self.minimum <= data and data <= self.maximum,
                    encoder.number_of_bits == old(encoder.number_of_bits) + 1 + self.number_of_bits
                    and encoder.value == 2 * old(encoder.value) * pow2(self.number_of_bits) + (data - self.minimum)))


@contract("Integer.decode", props=["C05", "C01", "C16", "C08"])
def _(self, decoder: Obj("Decoder")) -> Int:
    requires(self.has_extension_marker is not None)
    requires(self.number_of_bits is None or self.number_of_bits >= 0)
    raises(OutOfDataError)
    raises(DecodeError)
    raises(ValueError)        # unconstrained whole number with a zero length determinant (not a valid encoding)
    assigns(decoder)
    ensures(decoder.number_of_bits <= old(decoder.number_of_bits))
    ensures(implies(self.number_of_bits is not None and not self.has_extension_marker,
                    decoder.number_of_bits == old(decoder.number_of_bits) - self.number_of_bits
                    and result >= self.minimum and result < self.minimum + pow2(self.number_of_bits)))
