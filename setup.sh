#!/bin/sh
# offline setup: nothing to build; verify the tools the checks need are present
cd "$(dirname "$0")" || exit 1
python3-vt -c "import z3, jsonschema; print('z3', z3.get_version_string())" || exit 1
/venv/bin/python -c "import asn1tools; print('asn1tools importable')" || exit 1
mkdir -p .cache/pyc evidence
exit 0
