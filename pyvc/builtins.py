"""Assumed contracts of Python builtins / stdlib (DESIGN appendix A).
Each modelled operation lists the exceptions it may raise; anything else is out of subset."""
import z3

from .values import *
from .program import BuiltinClass, ClassInfo
from .interp import PathEnd, OutOfSubset, PyRaise, is_int_const, v_eq


def _const_int(v):
    return isinstance(v, VInt) and is_int_const(v.t)


def bytes_from_items(I, items, kind, fr):
    ts = []
    for x in items:
        t = I.as_int(x)
        if not fr.spec:
            if not I.path.branch(z3.And(t >= 0, t <= 255), 'byte'):
                I.raise_builtin('ValueError', 'byte must be in range(0, 256)')
        ts.append(z3.Unit(t))
    if not ts:
        return VSeq(z3.Empty(SeqS), kind)
    return VSeq(ts[0] if len(ts) == 1 else z3.Concat(*ts), kind)


def call_builtin(I, name, args, kwargs, fr):
    p = I.path
    if name == 'len':
        v = args[0]
        if isinstance(v, (VSeq, VStr)):
            return VInt(z3.Length(v.t))
        if isinstance(v, (VTuple, VList)):
            return VInt(len(v.items))
        if isinstance(v, VDict):
            return VInt(len(v.d))
        if isinstance(v, VConst) and v.kind == 'objseq':
            return VInt(v.py.length)
        if isinstance(v, VObj):
            f = I.prog.find_method(v.cls, '__len__')
            if f is not None:
                return I.call_function(f, [v], {}, fr, self_cls=v.cls)
        if isinstance(v, VAbsList):
            t = p.fresh_int('len')
            p.assume(t >= 0)
            return VInt(t)
        if fr.spec and (v is VNone or isinstance(v, (VInt, VBool, VFloat))):
            return VInt(p.fresh_int('undef'))
        if v is VNone and not fr.spec:
            I.raise_builtin('TypeError', 'len of None')
        if isinstance(v, VMap):
            # number of keys of a symbolic dict: an unknown non-negative number (stable per map)
            n_ = v.cache.get('__len__')
            if n_ is None:
                n_ = z3.Int(v.name + '.len')
                v.cache['__len__'] = n_
            I.path.assume(n_ >= 0)
            return VInt(n_)
        raise OutOfSubset('len of %r' % (v,))
    if name in ('bytearray', 'bytes'):
        kind = name
        if not args:
            return VSeq(z3.Empty(SeqS), kind)
        v = args[0]
        if isinstance(v, (VList, VTuple)):
            return bytes_from_items(I, v.items, kind, fr)
        if isinstance(v, VSeq):
            return VSeq(v.t, kind)
        if isinstance(v, VInt):
            I.alloc_obligation(v.t, fr, None, name + '(n)')
            r = I.call_spec('seq_repeat', VSeq(z3.Unit(z3.IntVal(0)), 'list'), v)
            return VSeq(r.t, kind)
        raise OutOfSubset('%s(%r)' % (name, v))
    if name == 'list' or name == 'tuple':
        if not args:
            return VList([]) if name == 'list' else VTuple([])
        v = args[0]
        if isinstance(v, VSeq):
            return VSeq(v.t, name)
        if isinstance(v, (VList, VTuple)):
            return (VList if name == 'list' else VTuple)(list(v.items))
        if isinstance(v, VDict):
            return VList([VInt(k) if isinstance(k, int) else VStr(k) for k in v.d])
        if isinstance(v, (VMap, VAbsList)):
            return VAbsList('list')          # keys of a symbolic dict (message text): contents are not tracked
        if v is VNone and fr.spec:
            return VSeq(I.path.fresh_seq('undef'), 'list')     # ill-typed sub-term of a clause: unspecified value
        raise OutOfSubset('%s(%r)' % (name, v))
    if name == 'int':
        v = args[0]
        base = args[1] if len(args) > 1 else kwargs.get('base')
        if isinstance(v, VHex):
            if not (_const_int(base) and base.t.as_long() == 16):
                raise OutOfSubset('int(hexlify, base!=16)')
            if not fr.spec and not p.branch(z3.Length(v.seq.t) > 0, 'int(hex)'):
                I.raise_builtin('ValueError', "invalid literal for int() with base 16: b''")
            return I.call_spec('be_val', VSeq(v.seq.t, 'list'))
        if isinstance(v, (VInt, VBool)) and base is None:
            return VInt(I.as_int(v))
        if isinstance(v, VStr) and base is not None and _const_int(base) and base.t.as_long() == 2:
            ok = I.call_spec('is_bitstr', v)
            if not fr.spec:
                if not p.branch(z3.And(ok.t, z3.Length(v.t) > 0), 'int(s,2)'):
                    I.raise_builtin('ValueError', 'invalid literal for int() with base 2')
            return I.call_spec('bits_val', v)
        if isinstance(v, VStr) and base is None:
            ok = I.call_spec('is_decimal', v)
            if not fr.spec:
                if not p.branch(ok.t, 'int(s)'):
                    I.raise_builtin('ValueError', 'invalid literal for int()')
            return I.call_spec('dec_val', v)
        if isinstance(v, VFloat):
            return VInt(p.fresh_int('int_of_float'))         # rounding not modelled: unconstrained integer
        raise OutOfSubset('int(%r)' % (v,))
    if name == 'bool':
        return VBool(I.truth(args[0]))
    if name == 'isinstance':
        return VBool(isinstance_(I, args[0], args[1]))
    if name == 'range':
        if len(args) == 1:
            lo, hi = z3.IntVal(0), I.as_int(args[0])
        elif len(args) == 2:
            lo, hi = I.as_int(args[0]), I.as_int(args[1])
        else:
            raise OutOfSubset('range with step')
        if is_int_const(lo) and is_int_const(hi) and hi.as_long() - lo.as_long() <= 16:
            return VList([VInt(i) for i in range(lo.as_long(), hi.as_long())])
        return VConst('range', (lo, hi))
    if name == 'sum':
        v = args[0]
        if isinstance(v, (VTuple, VList)):
            for x in v.items:
                if x is VNone and not fr.spec:
                    I.raise_builtin('TypeError', 'unsupported operand type(s) for +: int and NoneType')
            if not v.items:
                return VInt(0)
            return VInt(z3.Sum([I.as_int(x) for x in v.items]))
        raise OutOfSubset('sum(%r)' % (v,))
    if name in ('max', 'min'):
        items = args if len(args) > 1 else (args[0].items if isinstance(args[0], (VTuple, VList)) else None)
        if items is None:
            raise OutOfSubset('%s of symbolic sequence' % name)
        r = I.as_int(items[0])
        for x in items[1:]:
            t = I.as_int(x)
            r = z3.If(t > r, t, r) if name == 'max' else z3.If(t < r, t, r)
        return VInt(r)
    if name == 'abs' and isinstance(args[0], VFloat):
        return VFloat(z3.Real(p.fresh_name('fabs')))
    if name == 'abs':
        t = I.as_int(args[0])
        return VInt(z3.If(t < 0, -t, t))
    if name == 'divmod':
        a, b = I.as_int(args[0]), I.as_int(args[1])
        if not (is_int_const(b) and b.as_long() > 0):
            if not fr.spec:
                if p.branch(b == 0, 'div0'):
                    I.raise_builtin('ZeroDivisionError')
                if not p.branch(b > 0, 'divsign'):
                    raise OutOfSubset('negative divisor')
        return VTuple([VInt(a / b), VInt(a % b)])
    if name == 'getattr':
        obj, nm = args[0], args[1]
        if not (isinstance(nm, VStr) and z3.is_string_value(nm.t)):
            raise OutOfSubset('getattr with symbolic name')
        attr = nm.t.as_string()
        default = args[2] if len(args) > 2 else None
        if isinstance(obj, VObj):
            if attr in obj.fields:
                return I.getattr(obj, attr, fr)
            if I.prog.find_method(obj.cls, attr) is None and \
                    (not isinstance(obj.cls, ClassInfo) or I.prog.find_class_attr(obj.cls, attr) is None):
                decl = I.reg.declared_fields(obj.cls)
                if attr in decl:
                    raise OutOfSubset('getattr of declared but uninitialised field %s' % attr)
                if default is not None:
                    return default
                raise PyRaise(I.builtin_exc('AttributeError', nm))
        return I.getattr(obj, attr, fr, default)
    if name == 'hasattr':
        obj, nm = args[0], args[1]
        attr = nm.t.as_string()
        if isinstance(obj, VObj):
            return VBool(attr in obj.fields or I.prog.find_method(obj.cls, attr) is not None)
        raise OutOfSubset('hasattr')
    if name == 'str':
        v = args[0]
        if isinstance(v, VStr):
            return v
        if isinstance(v, (VInt, VBool)) and not isinstance(v, VBool):
            return I.call_spec('int_str', v)
        return VStr(p.fresh_str('str'))
    if name in ('repr', 'format'):
        return VStr(p.fresh_str(name))
    if name == 'hex':
        return VConst('hexstr', args[0])
    if name == 'bin':
        return VConst('binstr', args[0])
    if name == 'chr':
        return I.call_spec('chr_', VInt(I.as_int(args[0])))
    if name == 'ord':
        return I.call_spec('ord_', args[0])
    if name == 'sorted':
        v = args[0]
        if isinstance(v, (VList, VTuple)) and len(v.items) <= 1 and not kwargs:
            return VList(list(v.items))
        return VAbsList('list')         # order-only use (message text): contents are not tracked
    if name == 'reversed':
        v = args[0]
        if isinstance(v, (VList, VTuple)):
            return VList(list(reversed(v.items)))
        if isinstance(v, VSeq):
            r = I.call_spec('rev', VSeq(v.t, 'list'))
            return VSeq(r.t, 'list')
        raise OutOfSubset('reversed')
    if name == 'enumerate':
        v = args[0]
        if isinstance(v, (VList, VTuple)):
            return VList([VTuple([VInt(i), x]) for i, x in enumerate(v.items)])
        raise OutOfSubset('enumerate of symbolic sequence')
    if name == 'zip':
        if all(isinstance(v, (VList, VTuple)) for v in args):
            return VList([VTuple(list(t)) for t in zip(*[v.items for v in args])])
        raise OutOfSubset('zip of symbolic sequence')
    if name in ('any', 'all'):
        v = args[0]
        if isinstance(v, (VList, VTuple)):
            ts = [I.truth(x) for x in v.items]
            if not ts:
                return VBool(name == 'all')
            return VBool(z3.Or(ts) if name == 'any' else z3.And(ts))
        raise OutOfSubset('%s of symbolic sequence' % name)
    if name == 'float':
        v = args[0]
        if isinstance(v, VStr) and z3.is_string_value(v.t):
            s = v.t.as_string()
            return VConst('pyfloat', float(s))
        if isinstance(v, VFloat):
            return v
        if isinstance(v, (VInt, VBool)):
            return VFloat(z3.ToReal(I.as_int(v)))
        raise OutOfSubset('float(%r)' % (v,))
    if name == 'type':
        v = args[0]
        if isinstance(v, VObj):
            return VConst('class', v.cls)
        raise OutOfSubset('type()')
    if name == 'object':
        return VObj(BuiltinClass('object'), {})
    if name == 'dict':
        if not args and not kwargs:
            return VDict({})
        raise OutOfSubset('dict(...)')
    raise OutOfSubset('builtin %s' % name)


PY_TYPE_NAMES = {'int', 'str', 'bytes', 'bytearray', 'list', 'tuple', 'dict', 'bool', 'float', 'set'}


def isinstance_(I, v, typ):
    if isinstance(typ, VTuple):
        return z3.Or([isinstance_(I, v, t) for t in typ.items])
    if isinstance(typ, VConst) and typ.kind == 'builtin':
        n = typ.py
        if n == 'int':
            return z3.BoolVal(isinstance(v, (VInt, VBool)))
        if n == 'bool':
            return z3.BoolVal(isinstance(v, VBool))
        if n == 'str':
            return z3.BoolVal(isinstance(v, VStr))
        if n == 'bytes':
            return z3.BoolVal(isinstance(v, VSeq) and v.kind == 'bytes')
        if n == 'bytearray':
            return z3.BoolVal(isinstance(v, VSeq) and v.kind == 'bytearray')
        if n == 'list':
            return z3.BoolVal(isinstance(v, VList) or (isinstance(v, VSeq) and v.kind == 'list'))
        if n == 'tuple':
            return z3.BoolVal(isinstance(v, VTuple) or (isinstance(v, VSeq) and v.kind == 'tuple'))
        if n == 'dict':
            return z3.BoolVal(isinstance(v, (VDict, VMap)))
        if n == 'float':
            return z3.BoolVal(isinstance(v, VFloat))
        if n == 'object':
            return z3.BoolVal(True)
        if n == 'set':
            return z3.BoolVal(False)
    if isinstance(typ, VConst) and typ.kind == 'class':
        if isinstance(v, VObj):
            if I.prog.issubclass(v.cls, typ.py):
                return z3.BoolVal(True)
            if isinstance(typ.py, ClassInfo) and isinstance(v.cls, ClassInfo) and I.prog.issubclass(typ.py, v.cls) \
                    and I.reg.is_abstract_class(v.cls):
                # an object known only by an abstract base may be an instance of any subclass: undetermined
                key = ('isinst', id(v), typ.py.ident)
                cache = I.path.instances
                if key not in cache:
                    cache[key] = I.path.fresh_bool('isinstance')
                return cache[key]
            return z3.BoolVal(False)
        return z3.BoolVal(False)
    if isinstance(v, VOpaque):
        raise OutOfSubset('isinstance of opaque value')
    raise OutOfSubset('isinstance(%r, %r)' % (v, typ))


def call_extern(I, ref, args, kwargs, fr):
    mod, attr = ref
    name = (mod + '.' + attr) if mod else attr
    if name == 'binascii.hexlify':
        v = args[0]
        if isinstance(v, VSeq):
            return VHex(v)
        raise OutOfSubset('hexlify(%r)' % (v,))
    if name == 'binascii.unhexlify':
        v = args[0]
        if isinstance(v, VConst) and v.kind == 'hexstr_tail':
            # hex(x)[4:] of a number whose hex form starts with '0x80' (the callers or 0x80 << n into x): an odd
            # number of remaining hex digits is binascii.Error, else the octets hex80_bytes(x)
            x = I.as_int(v.py)
            r = I.call_spec('hex80_bytes', VInt(x))
            ok = I.call_spec('hex80_even', VInt(x))
            if not fr.spec and not I.path.branch(ok.t, 'unhexlify'):
                raise PyRaise(I.builtin_exc('binascii.Error', VStr('Odd-length string')))
            return VSeq(r.t, 'bytes')
        raise OutOfSubset('unhexlify(%r)' % (v,))
    if name in ('struct.pack', 'struct.unpack'):
        # single-field big-endian formats only: >B >H >I >Q (unsigned) and >b >h >i >q (two's complement).  A format
        # held in a field is enumerated over these eight (one path each); anything else is outside the subset.
        FM = {'>B': (1, False), '>H': (2, False), '>I': (4, False), '>Q': (8, False),
              '>b': (1, True), '>h': (2, True), '>i': (4, True), '>q': (8, True)}
        fmt = args[0]
        if not isinstance(fmt, VStr):
            raise OutOfSubset('struct format %r' % (fmt,))
        if z3.is_string_value(fmt.t):
            f_ = fmt.t.as_string()
        else:
            names_ = sorted(FM)
            k_ = I.path.choose(len(names_) + 1, 'struct.fmt')
            if k_ == len(names_):
                I.path.assume(z3.And([fmt.t != z3.StringVal(n_) for n_ in names_]))
                if not I.path.feasible(z3.BoolVal(True)):
                    raise PathEnd()
                raise OutOfSubset('struct format outside >B >H >I >Q >b >h >i >q')
            f_ = names_[k_]
            I.path.assume(fmt.t == z3.StringVal(f_))
            if not I.path.feasible(z3.BoolVal(True)):
                raise PathEnd()
        if f_ not in FM:
            raise OutOfSubset('struct format %r' % f_)
        n_, signed_ = FM[f_]
        if name == 'struct.pack':
            x = I.as_int(args[1])
            lo_, hi_ = (-(1 << (8 * n_ - 1)), (1 << (8 * n_ - 1)) - 1) if signed_ else (0, (1 << (8 * n_)) - 1)
            if not fr.spec and not I.path.branch(z3.And(x >= lo_, x <= hi_), 'struct.pack range'):
                raise PyRaise(I.builtin_exc('struct.error', VStr('argument out of range')))
            r = I.call_spec('be_bytes', VInt(x), VInt(n_))
            I.path.assume(I.truth(I.call_spec('all_bytes', VSeq(r.t, 'list'))))
            return VSeq(r.t, 'bytes')
        b = args[1]
        if not isinstance(b, VSeq):
            raise OutOfSubset('struct.unpack of %r' % (b,))
        if not fr.spec and not I.path.branch(z3.Length(b.t) == n_, 'struct.unpack size'):
            raise PyRaise(I.builtin_exc('struct.error', VStr('unpack requires a buffer of %d bytes' % n_)))
        v = I.call_spec('tc_val' if signed_ else 'be_val', VSeq(b.t, 'list'))
        return VTuple([VInt(I.as_int(v))])
    if name in BuiltinClass.HIER:
        return VObj(BuiltinClass(name), {'args': VTuple(args)})
    if name == 'math.isnan':
        return VBool(I.path.fresh_bool('isnan'))            # IEEE-754 classification: not modelled (floats are opaque)
    if name == 'math.frexp':
        # (mantissa, exponent): floating point is outside this family -- both results are unconstrained
        return VTuple([VFloat(z3.Real(I.path.fresh_name('mant'))), VInt(I.path.fresh_int('exp'))])
    if name == 'copy.copy' or name == 'copy':
        v = args[0]
        if isinstance(v, VObj):
            return VObj(v.cls, dict(v.fields))
        if isinstance(v, VSeq):
            return VSeq(v.t, v.kind)            # a new object with the same contents
        raise OutOfSubset('copy of %r' % (v,))
    raise OutOfSubset('external function %s' % name)


def call_builtin_super(I, recv, name, args, kwargs, fr):
    if name == '__init__':
        if isinstance(recv, VObj) and I.prog.issubclass(recv.cls, BuiltinClass('BaseException')):
            recv.fields['args'] = VTuple(args)
        return VNone
    raise OutOfSubset('super().%s on builtin base' % name)


def format_str(I, recv, args, kwargs, fr):
    """'...{}...'.format(a, b): concatenation of the literal pieces and str() of the arguments, for constant format
    strings whose fields are all plain `{}`; anything else (message texts) is an opaque string"""
    import string
    p = I.path
    if not z3.is_string_value(recv.t) or kwargs:
        return VStr(p.fresh_str('fmt'))
    try:
        parts = list(string.Formatter().parse(recv.t.as_string()))
    except ValueError:
        return VStr(p.fresh_str('fmt'))
    out = []
    ai = 0
    for lit, field, spec, conv in parts:
        if lit:
            out.append(z3.StringVal(lit))
        if field is None:
            continue
        if field != '' or spec or conv or ai >= len(args):
            return VStr(p.fresh_str('fmt'))
        a = args[ai]
        ai += 1
        if isinstance(a, VStr):
            out.append(a.t)
        elif isinstance(a, VInt):
            out.append(I.call_spec('int_str', a).t)
        else:
            return VStr(p.fresh_str('fmt'))
    if not out:
        return VStr('')
    return VStr(out[0] if len(out) == 1 else z3.Concat(*out))


def call_method(I, recv, name, args, kwargs, fr):
    p = I.path
    if isinstance(recv, VSeq):
        if name == 'append' and recv.mutable:
            if isinstance(args[0], VObj) and args[0].tag is not None and not recv.is_bytes:
                recv.t = z3.Concat(recv.t, z3.Unit(args[0].tag))      # id list
                return VNone
            x = I.as_int(args[0])
            if recv.is_bytes:
                if not p.branch(z3.And(x >= 0, x <= 255), 'byte'):
                    I.raise_builtin('ValueError', 'byte must be in range(0, 256)')
            recv.t = z3.Concat(recv.t, z3.Unit(x))
            return VNone
        if name == 'extend' and recv.mutable:
            v = args[0]
            if isinstance(v, VSeq):
                recv.t = z3.Concat(recv.t, v.t)
                return VNone
            if isinstance(v, (VList, VTuple)):
                add = bytes_from_items(I, v.items, 'bytes', fr)
                recv.t = z3.Concat(recv.t, add.t)
                return VNone
            raise OutOfSubset('extend(%r)' % (v,))
        if name == 'reverse' and recv.mutable:
            recv.t = I.call_spec('rev', VSeq(recv.t, 'list')).t
            return VNone
        if name == 'insert' and recv.mutable:
            i, x = I.as_int(args[0]), I.as_int(args[1])
            if is_int_const(i) and i.as_long() == 0:
                if recv.is_bytes and not p.branch(z3.And(x >= 0, x <= 255), 'byte'):
                    I.raise_builtin('ValueError', 'byte must be in range(0, 256)')
                recv.t = z3.Concat(z3.Unit(x), recv.t)
                return VNone
            raise OutOfSubset('insert at non-zero index')
        if name == 'pop' and recv.mutable:
            n = z3.Length(recv.t)
            if not p.branch(n > 0, 'pop'):
                I.raise_builtin('IndexError', 'pop from empty')
            if not args:
                e = recv.t[n - 1]
                recv.t = z3.SubSeq(recv.t, 0, n - 1)
            elif _const_int(args[0]) and args[0].t.as_long() == 0:
                e = recv.t[0]
                recv.t = z3.SubSeq(recv.t, 1, n - 1)
            else:
                raise OutOfSubset('pop(i)')
            if recv.is_bytes:
                p.assume(z3.And(e >= 0, e <= 255))
            return VInt(e)
        if name == 'join' and recv.is_bytes and isinstance(args[0], (VList, VTuple)) and \
                all(isinstance(x, VSeq) for x in args[0].items):
            items = args[0].items
            if not items:
                return VSeq(z3.Empty(SeqS), recv.kind)
            out = items[0].t
            for x in items[1:]:
                out = z3.Concat(out, recv.t, x.t)
            return VSeq(out, recv.kind)
        if name == 'rstrip' and recv.is_bytes:
            r = I.call_spec('rstrip_zeros', VSeq(recv.t, 'list'))
            return VSeq(r.t, recv.kind)
        if name == 'decode':
            enc = args[0] if args else VStr('utf-8')
            ok = I.call_spec('decodable', VSeq(recv.t, 'list'), enc)
            if not fr.spec and not p.branch(ok.t, 'decode'):
                raise PyRaise(I.builtin_exc('UnicodeDecodeError', VStr('invalid bytes for the codec')))
            return I.call_spec('text_decode', VSeq(recv.t, 'list'), enc)
        if name == 'hex':
            return VStr(p.fresh_str('hex'))
        if name == 'startswith' and isinstance(args[0], VSeq):
            return VBool(z3.PrefixOf(args[0].t, recv.t))
        if name == 'copy':
            return VSeq(recv.t, recv.kind)
    if isinstance(recv, VInt) or isinstance(recv, VBool):
        x = I.as_int(recv)
        if name == 'bit_length':
            return I.call_spec('blen', VInt(z3.If(x < 0, -x, x)))
        if name == 'to_bytes':
            length = args[0] if args else kwargs.get('length')
            bo = args[1] if len(args) > 1 else kwargs.get('byteorder')
            signed = kwargs.get('signed', VBool(False))
            if not (isinstance(bo, VStr) and z3.is_string_value(bo.t) and bo.t.as_string() == 'big'):
                raise OutOfSubset('to_bytes little endian')
            k = I.as_int(length)
            sg = z3.simplify(I.truth(signed))
            if z3.is_true(sg):
                lo = -I.pow2(8 * k - 1)
                hi = I.pow2(8 * k - 1)
                if not fr.spec:
                    if p.branch(k < 0, 'to_bytes.len'):
                        I.raise_builtin('ValueError', 'length argument must be non-negative')
                    if not p.branch(z3.And(z3.Or(k > 0, x == 0), z3.Or(k == 0, z3.And(lo <= x, x < hi))), 'to_bytes'):
                        I.raise_builtin('OverflowError', 'int too big to convert')
                r = I.call_spec('be_bytes', VInt(x), VInt(k))
            elif z3.is_false(sg):
                if not fr.spec:
                    if p.branch(k < 0, 'to_bytes.len'):
                        I.raise_builtin('ValueError', 'length argument must be non-negative')
                    if p.branch(x < 0, 'to_bytes.neg'):
                        I.raise_builtin('OverflowError', "can't convert negative int to unsigned")
                    if not p.branch(x < I.pow2(8 * k), 'to_bytes'):
                        I.raise_builtin('OverflowError', 'int too big to convert')
                r = I.call_spec('be_bytes', VInt(x), VInt(k))
            else:
                raise OutOfSubset('to_bytes with symbolic signedness')
            return VSeq(r.t, 'bytes')
    if isinstance(recv, VStr):
        if name == 'format':
            return format_str(I, recv, args, kwargs, fr)
        if name == 'replace' and len(args) == 2 and all(isinstance(a, VStr) for a in args):
            return I.call_spec('replace_all', recv, args[0], args[1])
        if name == 'upper':
            return I.call_spec('str_upper', recv)
        if name == 'lstrip' and len(args) == 1 and isinstance(args[0], VStr):
            return I.call_spec('str_lstrip', recv, args[0])
        if name == 'join':
            v = args[0]
            if isinstance(v, (VList, VTuple)) and all(isinstance(x, VStr) for x in v.items):
                if not v.items:
                    return VStr('')
                out = v.items[0].t
                for x in v.items[1:]:
                    out = z3.Concat(out, recv.t, x.t)
                return VStr(out)
            return VStr(p.fresh_str('join'))
        if name == 'encode':
            enc = args[0] if args else VStr('utf-8')
            r = I.call_spec('text_encode', recv, enc)
            return VSeq(r.t, 'bytes')
        if name == 'startswith':
            return VBool(z3.PrefixOf(args[0].t, recv.t))
        if name == 'endswith':
            return VBool(z3.SuffixOf(args[0].t, recv.t))
        if name in ('upper', 'lower', 'strip', 'lstrip', 'rstrip', 'replace'):
            if name == 'rstrip' and args and isinstance(args[0], VStr) and z3.is_string_value(args[0].t) \
                    and args[0].t.as_string() == 'L':
                return recv     # hex(...).rstrip('L'): python-3 hex() never ends in 'L'
            return VStr(p.fresh_str(name))
    if isinstance(recv, VConst) and recv.kind == 'builtin' and recv.py == 'int' and name == 'from_bytes':
        v = args[0]
        bo = args[1] if len(args) > 1 else kwargs.get('byteorder')
        signed = z3.simplify(I.truth(kwargs.get('signed', VBool(False))))
        if not (isinstance(v, VSeq) and isinstance(bo, VStr) and z3.is_string_value(bo.t) and bo.t.as_string() == 'big'):
            raise OutOfSubset('int.from_bytes form')
        if z3.is_true(signed):
            return I.call_spec('tc_val', VSeq(v.t, v.kind))
        if z3.is_false(signed):
            return I.call_spec('be_val', VSeq(v.t, v.kind))
        raise OutOfSubset('int.from_bytes with symbolic signedness')
    if isinstance(recv, VConst) and recv.kind in ('hexstr', 'hexstr_tail') and name == 'rstrip' and args and \
            isinstance(args[0], VStr) and z3.is_string_value(args[0].t) and args[0].t.as_string() == 'L':
        return recv          # python-3 hex() never ends in 'L'
    if isinstance(recv, VConst) and recv.kind in ('hexstr', 'binstr'):
        raise OutOfSubset('method on hex()/bin() string')
    if isinstance(recv, VAbsList):
        if name in ('append', 'extend', 'insert', 'update', 'reverse'):
            return VNone
    if isinstance(recv, VList):
        if name == 'append':
            recv.items.append(args[0])
            return VNone
        if name == 'extend' and isinstance(args[0], (VList, VTuple)):
            recv.items.extend(args[0].items)
            return VNone
        if name == 'reverse':
            recv.items.reverse()
            return VNone
        if name == 'pop':
            if not recv.items:
                I.raise_builtin('IndexError', 'pop from empty list')
            if not args:
                return recv.items.pop()
            if _const_int(args[0]):
                return recv.items.pop(args[0].t.as_long())
        if name == 'insert' and _const_int(args[0]):
            recv.items.insert(args[0].t.as_long(), args[1])
            return VNone
        if name == 'copy':
            return VList(list(recv.items))
    if isinstance(recv, VDict):
        if name == 'get':
            key = args[0]
            default = args[1] if len(args) > 1 else VNone
            try:
                return I.dict_get(recv, key, fr)
            except PyRaise as e:
                if e.exc.cls is BuiltinClass('KeyError'):
                    return default
                raise
        if name == 'items':
            return VList([VTuple([VInt(k) if isinstance(k, int) else VStr(k), v]) for k, v in recv.d.items()])
        if name == 'keys':
            return VList([VInt(k) if isinstance(k, int) else VStr(k) for k in recv.d])
        if name == 'values':
            return VList(list(recv.d.values()))
    if isinstance(recv, VMap):
        if name == 'get':
            key = args[0]
            default = args[1] if len(args) > 1 else VNone
            k = recv.key_term(I, key)
            if k is not None and p.branch(recv.has(k), 'map.get'):
                return recv.get(I, key)
            return default
    raise OutOfSubset('method %s on %r' % (name, recv))
