"""Source loading: the verified text is the code that runs.

Every run re-reads the files under <repo>/asn1tools with `ast`, indexes modules,
classes (with C3 MRO computed from the ClassDef bases found in the source),
functions and module-level constants, and hashes each function's source segment.
Nothing here executes repository code.
"""
import ast
import hashlib
import os


class FuncInfo:
    def __init__(self, module, cls, node, src):
        self.module = module
        self.cls = cls
        self.node = node
        self.name = node.name
        self.src = src
        self.sha = hashlib.sha256(src.encode()).hexdigest()
        self.is_generator = any(isinstance(n, (ast.Yield, ast.YieldFrom))
                                for n in ast.walk(node))
        self.decorators = [ast.unparse(d) for d in node.decorator_list]

    @property
    def qualname(self):
        return (self.cls.name + '.' if self.cls else '') + self.name

    @property
    def ident(self):
        return self.module.relpath + '::' + self.qualname

    def __repr__(self):
        return '<func %s>' % self.ident


class ClassInfo:
    def __init__(self, module, node):
        self.module = module
        self.node = node
        self.name = node.name
        self.methods = {}
        self.attrs = {}
        self.base_exprs = node.bases
        self._mro = None

    @property
    def ident(self):
        return self.module.relpath + '::' + self.name

    def __repr__(self):
        return '<class %s>' % self.ident


class BuiltinClass:
    """A class not defined in the repository (object, Exception, ...)."""
    _cache = {}
    HIER = {
        'object': [],
        'BaseException': ['object'],
        'Exception': ['BaseException'],
        'ArithmeticError': ['Exception'],
        'LookupError': ['Exception'],
        'IndexError': ['LookupError'],
        'KeyError': ['LookupError'],
        'ValueError': ['Exception'],
        'UnicodeError': ['ValueError'],
        'UnicodeDecodeError': ['UnicodeError'],
        'UnicodeEncodeError': ['UnicodeError'],
        'TypeError': ['Exception'],
        'AttributeError': ['Exception'],
        'OverflowError': ['ArithmeticError'],
        'ZeroDivisionError': ['ArithmeticError'],
        'NotImplementedError': ['RuntimeError'],
        'RuntimeError': ['Exception'],
        'RecursionError': ['RuntimeError'],
        'AssertionError': ['Exception'],
        'StopIteration': ['Exception'],
        'struct.error': ['Exception'],
        'binascii.Error': ['ValueError'],
        'struct.error': ['Exception'],
    }

    def __new__(cls, name):
        if name in cls._cache:
            return cls._cache[name]
        o = object.__new__(cls)
        o.name = name
        o.methods = {}
        o.attrs = {}
        cls._cache[name] = o
        return o

    @property
    def ident(self):
        return 'builtins::' + self.name

    def __repr__(self):
        return '<builtin class %s>' % self.name


class ModuleInfo:
    def __init__(self, name, relpath, path, src):
        self.name = name
        self.relpath = relpath
        self.path = path
        self.src = src
        self.tree = ast.parse(src)
        self.functions = {}
        self.classes = {}
        self.assigns = {}
        self.imports = {}     # local name -> ('module', modname) | ('attr', modname, attr)
        self.is_package = relpath.endswith('__init__.py')


class Program:
    def __init__(self, repo_root, package='asn1tools'):
        self.root = repo_root
        self.package = package
        self.modules = {}
        base = os.path.join(repo_root, package)
        for dirpath, dirnames, filenames in os.walk(base):
            dirnames[:] = [d for d in dirnames if d != '__pycache__']
            for fn in sorted(filenames):
                if not fn.endswith('.py'):
                    continue
                path = os.path.join(dirpath, fn)
                rel = os.path.relpath(path, repo_root)
                parts = rel[:-3].split(os.sep)
                if parts[-1] == '__init__':
                    parts = parts[:-1]
                name = '.'.join(parts)
                with open(path, encoding='utf-8') as f:
                    src = f.read()
                try:
                    self._load(name, rel, path, src)
                except SyntaxError:
                    pass

    def _load(self, name, rel, path, src):
        m = ModuleInfo(name, rel, path, src)
        self.modules[name] = m
        for node in m.tree.body:
            self._index_stmt(m, node)

    def _index_stmt(self, m, node):
        if isinstance(node, ast.FunctionDef):
            m.functions[node.name] = FuncInfo(m, None, node,
                                              ast.get_source_segment(m.src, node))
        elif isinstance(node, ast.ClassDef):
            c = ClassInfo(m, node)
            m.classes[node.name] = c
            for sub in node.body:
                if isinstance(sub, ast.FunctionDef):
                    c.methods[sub.name] = FuncInfo(m, c, sub,
                                                   ast.get_source_segment(m.src, sub))
                elif isinstance(sub, ast.Assign):
                    for t in sub.targets:
                        if isinstance(t, ast.Name):
                            c.attrs[t.id] = sub.value
        elif isinstance(node, ast.Assign):
            for t in node.targets:
                if isinstance(t, ast.Name):
                    m.assigns[t.id] = node.value
        elif isinstance(node, ast.Import):
            for a in node.names:
                m.imports[a.asname or a.name.split('.')[0]] = ('module', a.name)
        elif isinstance(node, ast.ImportFrom):
            if node.level:
                pkg = m.name.split('.')
                if not m.is_package:
                    pkg = pkg[:-1]
                if node.level > 1:
                    pkg = pkg[:len(pkg) - (node.level - 1)]
                modname = '.'.join(pkg + ([node.module] if node.module else []))
            else:
                modname = node.module
            for a in node.names:
                m.imports[a.asname or a.name] = ('attr', modname, a.name)
        elif isinstance(node, (ast.If, ast.Try)):
            for sub in node.body:
                self._index_stmt(m, sub)

    # ------------------------------------------------------------------ lookup
    def module_by_relpath(self, relpath):
        for m in self.modules.values():
            if m.relpath == relpath:
                return m
        raise KeyError(relpath)

    def func(self, relpath, qualname):
        m = self.module_by_relpath(relpath)
        if '.' in qualname:
            cname, fname = qualname.split('.', 1)
            return m.classes[cname].methods[fname]
        return m.functions[qualname]

    def cls(self, relpath, name):
        return self.module_by_relpath(relpath).classes[name]

    def resolve(self, module, name, _depth=0):
        """Resolve a global name as seen from `module`.
        Returns ('class', ClassInfo|BuiltinClass) | ('func', FuncInfo) |
        ('expr', module, ast expr) | ('module', name) | None"""
        if _depth > 8:
            return None
        if name in module.functions:
            return ('func', module.functions[name])
        if name in module.classes:
            return ('class', module.classes[name])
        if name in module.assigns:
            return ('expr', module, module.assigns[name])
        if name in module.imports:
            imp = module.imports[name]
            if imp[0] == 'module':
                return ('module', imp[1])
            _, modname, attr = imp
            if modname in self.modules:
                r = self.resolve(self.modules[modname], attr, _depth + 1)
                if r is not None:
                    return r
                sub = modname + '.' + attr
                if sub in self.modules:
                    return ('module', sub)
                return None
            sub = (modname + '.' + attr) if modname else attr
            if sub in self.modules:
                return ('module', sub)
            return ('extern', modname, attr)
        if name in BuiltinClass.HIER:
            return ('class', BuiltinClass(name))
        return None

    def bases(self, cls):
        if isinstance(cls, BuiltinClass):
            return [BuiltinClass(b) for b in BuiltinClass.HIER.get(cls.name, ['object'])]
        out = []
        for b in cls.base_exprs:
            r = None
            if isinstance(b, ast.Name):
                r = self.resolve(cls.module, b.id)
            elif isinstance(b, ast.Attribute) and isinstance(b.value, ast.Name):
                rm = self.resolve(cls.module, b.value.id)
                if rm and rm[0] == 'module' and rm[1] in self.modules:
                    r = self.resolve(self.modules[rm[1]], b.attr)
                elif rm and rm[0] == 'module':
                    nm = rm[1] + '.' + b.attr
                    if nm in BuiltinClass.HIER:
                        r = ('class', BuiltinClass(nm))
            if r and r[0] == 'class':
                out.append(r[1])
            else:
                out.append(BuiltinClass('object'))
        if not out:
            out = [BuiltinClass('object')]
        return out

    def mro(self, cls):
        if getattr(cls, '_mro', None):
            return cls._mro
        seqs = [self.mro(b)[:] for b in self.bases(cls)] + [self.bases(cls)[:]]
        res = [cls]
        while True:
            seqs = [s for s in seqs if s]
            if not seqs:
                break
            for s in seqs:
                cand = s[0]
                if not any(cand in t[1:] for t in seqs):
                    break
            else:
                raise TypeError('inconsistent MRO for %s' % cls.name)
            res.append(cand)
            for s in seqs:
                if s and s[0] is cand:
                    del s[0]
        try:
            cls._mro = res
        except Exception:
            pass
        return res

    def issubclass(self, cls, other):
        return other in self.mro(cls)

    def find_method(self, cls, name, after=None):
        mro = self.mro(cls)
        if after is not None:
            mro = mro[mro.index(after) + 1:]
        for c in mro:
            if name in c.methods:
                return c.methods[name]
        return None

    def find_class_attr(self, cls, name):
        for c in self.mro(cls):
            if name in c.attrs:
                return c, c.attrs[name]
        return None

    def subclasses(self, cls):
        out = []
        for m in self.modules.values():
            for c in m.classes.values():
                if c is not cls and cls in self.mro(c):
                    out.append(c)
        return out
