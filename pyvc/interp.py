"""pyvc symbolic executor: Python `ast` of the real functions -> verification conditions.

exec mode  : forward symbolic execution, path by path (decision-replay forking),
             exceptions as control flow, loops cut by invariants, calls by contract.
spec mode  : pure evaluation of contract clauses / spec functions to z3 terms
             (if -> ite, and/or -> And/Or, recursive spec functions -> uninterpreted
             symbol + definitional unfolding instances).
"""
import ast
import itertools
import z3

from .values import *
from .program import FuncInfo, ClassInfo, BuiltinClass


class PyRaise(Exception):
    def __init__(self, exc):
        self.exc = exc


class PathEnd(Exception):
    pass


class OutOfSubset(Exception):
    pass


class _Return(Exception):
    def __init__(self, value):
        self.value = value


class _Break(Exception):
    pass


class _Continue(Exception):
    pass


def is_int_const(t):
    return z3.is_int_value(t)


def zint(x):
    return z3.IntVal(x) if isinstance(x, int) else x


def guarded_check(solver, seconds, *assumptions):
    """solver.check with a watchdog: some sequence / non-linear queries ignore both `timeout` and `rlimit`;
    the context is interrupted from a timer thread and the result is `unknown`"""
    import threading
    ctx = solver.ctx
    timer = threading.Timer(seconds, ctx.interrupt)
    timer.daemon = True
    timer.start()
    try:
        return solver.check(*assumptions)
    except z3.Z3Exception:
        return z3.unknown
    finally:
        timer.cancel()


class Obligation:
    def __init__(self, name, kind, pc, goal, line, path_id, func):
        self.name = name
        self.kind = kind
        self.pc = pc
        self.goal = goal
        self.line = line
        self.path_id = path_id
        self.func = func
        self.verdict = None
        self.model = None
        self.time = 0.0
        self.backend = None
        self.reason = ''

    def smt2(self):
        s = z3.Solver()
        for p in self.pc:
            s.add(p)
        s.add(z3.Not(self.goal))
        return s.to_smt2()


class Path:
    """One execution path; decisions beyond `prefix` are made here and the
    alternatives are queued in `pending`."""

    def __init__(self, prefix, feas_timeout_ms=3000):
        self.prefix = list(prefix)
        self.decisions = []
        self.pending = []
        self.pc = []
        self.solver = z3.Solver()
        self.solver.set('timeout', feas_timeout_ms)
        self.solver.set('rlimit', 3000000)          # deterministic resource bound: some queries ignore the timeout
        self.obligations = []
        self.counter = itertools.count()
        self.instances = {}
        self.notes = []
        self.depth = 0
        self.unknown_feas = 0
        self.const_subst = []

    def fresh_name(self, base):
        return '%s!%d' % (base, next(self.counter))

    def fresh_int(self, base='i'):
        return z3.Int(self.fresh_name(base))

    def fresh_bool(self, base='b'):
        return z3.Bool(self.fresh_name(base))

    def fresh_seq(self, base='s'):
        return z3.Const(self.fresh_name(base), SeqS)

    def fresh_str(self, base='str'):
        return z3.Const(self.fresh_name(base), StrS)

    def fresh_val(self, base='v'):
        return z3.Const(self.fresh_name(base), ValS)

    def assume(self, t):
        if isinstance(t, bool):
            t = z3.BoolVal(t)
        if z3.is_true(t):
            return
        self.pc.append(t)
        self.solver.add(t)

    def feasible(self, cond):
        r = guarded_check(self.solver, 6.0, cond)
        if r == z3.unknown:
            self.unknown_feas += 1
        return r != z3.unsat

    def choose(self, n, label=''):
        """n-way nondeterministic choice (all alternatives explored)."""
        i = len(self.decisions)
        if i < len(self.prefix):
            d = self.prefix[i]
        else:
            d = 0
            for alt in range(1, n):
                self.pending.append(self.decisions + [alt])
        self.decisions.append(d)
        return d

    def branch(self, cond, label=''):
        if isinstance(cond, bool):
            return cond
        c = z3.simplify(cond)
        if z3.is_true(c):
            return True
        if z3.is_false(c):
            return False
        i = len(self.decisions)
        if i < len(self.prefix):
            d = self.prefix[i]
        else:
            ft = self.feasible(c)
            ff = self.feasible(z3.Not(c))
            if ft and ff:
                d = 1
                self.pending.append(self.decisions + [0])
            elif ft:
                d = 1
            elif ff:
                d = 0
            else:
                raise PathEnd()
        self.decisions.append(d)
        self.assume(c if d else z3.Not(c))
        return bool(d)


class Frame:
    def __init__(self, func, locals_, module, cls=None):
        self.func = func
        self.locals = locals_
        self.module = module
        self.cls = cls          # class where the function is *defined* (for super())
        self.self_cls = None    # dynamic class of self
        self.loop_ordinal = 0
        self.old = None
        self.spec = False
        self.handling = None    # exception being handled (for bare raise)


# ---------------------------------------------------------------------------
def v_eq(a, b):
    """python == as z3 Bool / python bool (structural)"""
    if isinstance(a, VBool) and isinstance(b, VInt):
        a = VInt(z3.If(a.t, 1, 0))
    if isinstance(b, VBool) and isinstance(a, VInt):
        b = VInt(z3.If(b.t, 1, 0))
    if isinstance(a, VInt) and isinstance(b, VInt):
        return a.t == b.t
    if isinstance(a, VBool) and isinstance(b, VBool):
        return a.t == b.t
    if isinstance(a, VSeq) and isinstance(b, VSeq):
        if a.is_bytes != b.is_bytes:
            return z3.BoolVal(False)
        if not a.is_bytes and (a.kind == 'tuple') != (b.kind == 'tuple'):
            return z3.BoolVal(False)
        return a.t == b.t
    if isinstance(a, VSeq) and isinstance(b, VList) and all(isinstance(x, (VInt, VBool)) for x in b.items):
        if a.kind not in ('list',):
            return z3.BoolVal(False)
        return a.t == seq_of_terms([x.t if isinstance(x, VInt) else z3.If(x.t, 1, 0) for x in b.items])
    if isinstance(b, VSeq) and isinstance(a, VList):
        return v_eq(b, a)
    if isinstance(a, VStr) and isinstance(b, VStr):
        return a.t == b.t
    if isinstance(a, VOpaque) and isinstance(b, VOpaque):
        return a.t == b.t
    if isinstance(a, VFloat) and isinstance(b, VFloat):
        return a.t == b.t
    if a is VNone or b is VNone:
        return z3.BoolVal(a is b)
    if isinstance(a, VTuple) and isinstance(b, VTuple):
        if len(a.items) != len(b.items):
            return z3.BoolVal(False)
        return z3.And([v_eq(x, y) for x, y in zip(a.items, b.items)]) if a.items else z3.BoolVal(True)
    if isinstance(a, VList) and isinstance(b, VList):
        if len(a.items) != len(b.items):
            return z3.BoolVal(False)
        return z3.And([v_eq(x, y) for x, y in zip(a.items, b.items)]) if a.items else z3.BoolVal(True)
    if isinstance(a, VConst) and isinstance(b, VConst):
        return z3.BoolVal(a.py is b.py or (a.kind == b.kind == 'pyconst' and a.py == b.py))
    if isinstance(a, VObj) and isinstance(b, VInt) and a.tag is not None:
        return a.tag == b.t          # element of an id list (IdList field) compared with an object
    if isinstance(b, VObj) and isinstance(a, VInt) and b.tag is not None:
        return b.tag == a.t
    if isinstance(a, VObj) and isinstance(b, VObj):
        if a is b:
            return z3.BoolVal(True)
        if a.tag is not None and b.tag is not None:
            return a.tag == b.tag
        return z3.BoolVal(False)
    # a user value is never the module-private sentinel object
    if (isinstance(a, VOpaque) and isinstance(b, VConst) and b.kind == 'sentinel') or \
            (isinstance(b, VOpaque) and isinstance(a, VConst) and a.kind == 'sentinel'):
        return z3.BoolVal(False)
    if (isinstance(a, VConst) and a.kind == 'sentinel') or (isinstance(b, VConst) and b.kind == 'sentinel'):
        return z3.BoolVal(False)
    # different python types: never equal (int vs str, etc.)
    if isinstance(a, VOpaque) or isinstance(b, VOpaque):
        raise OutOfSubset('== between opaque and %r' % (b if isinstance(a, VOpaque) else a,))
    return z3.BoolVal(False)


def ite_v(c, a, b):
    if a is b:
        return a
    if isinstance(c, bool):
        return a if c else b
    if z3.is_true(c):
        return a
    if z3.is_false(c):
        return b
    if isinstance(a, VBool) and isinstance(b, VInt):
        a = VInt(z3.If(a.t, 1, 0))
    if isinstance(b, VBool) and isinstance(a, VInt):
        b = VInt(z3.If(b.t, 1, 0))
    if isinstance(a, VInt) and isinstance(b, VInt):
        return VInt(z3.If(c, a.t, b.t))
    if isinstance(a, VBool) and isinstance(b, VBool):
        return VBool(z3.If(c, a.t, b.t))
    if isinstance(a, VSeq) and isinstance(b, VSeq):
        return VSeq(z3.If(c, a.t, b.t), a.kind)
    if isinstance(a, VStr) and isinstance(b, VStr):
        return VStr(z3.If(c, a.t, b.t))
    if isinstance(a, VOpaque) and isinstance(b, VOpaque):
        return VOpaque(z3.If(c, a.t, b.t))
    if isinstance(a, VTuple) and isinstance(b, VTuple) and len(a.items) == len(b.items):
        return VTuple([ite_v(c, x, y) for x, y in zip(a.items, b.items)])
    if isinstance(a, VConst) and isinstance(b, VConst) and a.py is b.py:
        return a
    raise OutOfSubset('ite over different kinds: %r / %r' % (a, b))


def seq_of_terms(ts):
    if not ts:
        return z3.Empty(SeqS)
    us = [z3.Unit(t) for t in ts]
    return us[0] if len(us) == 1 else z3.Concat(*us)


def mask_runs(mask):
    """decompose a non-negative constant mask into runs [(lo, width)]"""
    runs = []
    i = 0
    while mask >> i:
        if (mask >> i) & 1:
            j = i
            while (mask >> j) & 1:
                j += 1
            runs.append((i, j - i))
            i = j
        else:
            i += 1
    return runs


def and_const(x, mask):
    """x & mask for a non-negative python-int mask, exact for every integer x"""
    if mask == 0:
        return z3.IntVal(0)
    terms = []
    for lo, w in mask_runs(mask):
        t = x
        if lo:
            t = t / z3.IntVal(1 << lo)
        t = t % z3.IntVal(1 << w)
        if lo:
            t = t * z3.IntVal(1 << lo)
        terms.append(t)
    return terms[0] if len(terms) == 1 else z3.Sum(terms)


class Interp:
    def __init__(self, program, registry, path):
        self.prog = program
        self.reg = registry        # contracts / spec functions / field declarations
        self.path = path
        self.call_depth = 0
        self.unfold_depth = 0
        self.current_contract = None
        self.lemma_uses = []

    # ----------------------------------------------------------------- helpers
    def builtin_exc(self, name, *args):
        return VObj(BuiltinClass(name), {'args': VTuple(list(args))})

    def raise_builtin(self, name, msg=''):
        raise PyRaise(self.builtin_exc(name, VStr(msg)))

    def truth(self, v):
        if isinstance(v, VBool):
            return v.t
        if isinstance(v, VInt):
            return v.t != 0
        if v is VNone:
            return z3.BoolVal(False)
        if isinstance(v, VSeq):
            return z3.Length(v.t) > 0
        if isinstance(v, VStr):
            return z3.Length(v.t) > 0
        if isinstance(v, (VTuple, VList)):
            return z3.BoolVal(len(v.items) > 0)
        if isinstance(v, VAbsList):
            return self.path.fresh_bool('nonempty')
        if isinstance(v, VDict):
            return z3.BoolVal(len(v.d) > 0)
        if isinstance(v, VObj):
            cls = v.cls
            if isinstance(cls, ClassInfo) and (self.prog.find_method(cls, '__len__') or
                                               self.prog.find_method(cls, '__bool__')):
                raise OutOfSubset('truthiness of object with __len__/__bool__')
            return z3.BoolVal(True)
        if isinstance(v, (VConst, VBound)):
            return z3.BoolVal(True)
        if isinstance(v, VOpaque):
            # truthiness of a value of unknown python type: an uninterpreted predicate of the value
            return z3.Function('py_truthy', ValS, BoolS)(v.t)
        raise OutOfSubset('truth of %r' % (v,))

    def as_int(self, v):
        if isinstance(v, VInt):
            return v.t
        if isinstance(v, VBool):
            return z3.If(v.t, z3.IntVal(1), z3.IntVal(0))
        raise OutOfSubset('expected int, got %r' % (v,))

    def is_intlike(self, v):
        return isinstance(v, (VInt, VBool))

    def spec_fn(self, name):
        return self.reg.spec_functions.get(name)

    def call_spec(self, name, *args):
        return self.call_spec_function(self.reg.spec_functions[name], list(args))

    def pow2(self, n, fr=None):
        n = z3.simplify(n)
        if not is_int_const(n) and fr is not None and not fr.spec and self.implied(z3.And(n >= 0, n <= 8)):
            # small-domain concretisation: shift counts / bit positions inside one octet are enumerated
            k = self.path.choose(9, 'pow2small')
            self.path.assume(n == k)
            self.path.const_subst.append((n, z3.IntVal(k)))
            if not self.path.feasible(z3.BoolVal(True)):
                raise PathEnd()
            self._pow2_consts = getattr(self, '_pow2_consts', {})
            return z3.IntVal(1 << k)
        if not is_int_const(n):
            c = self.try_const(n)
            if c is not None:
                n = z3.IntVal(c)
        if is_int_const(n):
            k = n.as_long()
            return z3.IntVal(1 << k) if k >= 0 else z3.IntVal(1)
        return self.as_int(self.call_spec('pow2', VInt(n)))

    def try_const(self, t):
        """if the path condition fixes the integer term t to one small value, return it"""
        if self.path.const_subst:
            t2 = z3.simplify(z3.substitute(t, *self.path.const_subst))
            if z3.is_int_value(t2):
                return t2.as_long()
        try:
            s = self.path.solver
            if guarded_check(s, 6.0) != z3.sat:
                return None
            v = s.model().eval(t, model_completion=True)
            if not z3.is_int_value(v) or abs(v.as_long()) > 4096:
                return None
            if guarded_check(s, 6.0, t != v) == z3.unsat:
                return v.as_long()
        except z3.Z3Exception:
            pass
        return None

    # ----------------------------------------------------------------- names
    def force(self, v):
        """materialise a lazy value.  Live frames share one object; a pre-state frame gets the initial-state copy."""
        if not isinstance(v, VLazy):
            return v
        cell = v.cell
        if cell['value'] is None:
            cell['value'] = cell['make']()
            cell['snap'] = self.snapshot_value(cell['value'], {})
        return cell['snap'] if v.snapshot else cell['value']

    def lookup(self, name, fr):
        if name in fr.locals:
            v = fr.locals[name]
            if isinstance(v, VLazy):
                v = self.force(v)
                fr.locals[name] = v
            return v
        if fr.spec or self.reg.is_spec_module(fr.module):
            r = self.reg.resolve_spec_name(name)
            if r is not None:
                return r
        r = self.prog.resolve(fr.module, name) if fr.module is not None else None
        if r is None and fr.spec and fr.func is not None and getattr(fr, 'target_module', None):
            r = self.prog.resolve(fr.target_module, name)
        if r is None and fr.spec:
            # clauses inherited through refines() are written against the base contract's module
            for rel in ('asn1tools/codecs/ber.py', 'asn1tools/codecs/per.py', 'asn1tools/codecs/__init__.py'):
                try:
                    r = self.prog.resolve(self.prog.module_by_relpath(rel), name)
                except KeyError:
                    r = None
                if r is not None:
                    break
        if r is not None:
            return self.global_value(r)
        if name in ('len', 'int', 'bytearray', 'bytes', 'isinstance', 'range', 'sum', 'max', 'min',
                    'abs', 'divmod', 'bool', 'str', 'list', 'tuple', 'getattr', 'hasattr', 'super',
                    'sorted', 'reversed', 'enumerate', 'zip', 'any', 'all', 'hex', 'bin', 'chr',
                    'ord', 'float', 'object', 'type', 'dict', 'set', 'format', 'repr', 'iter', 'next'):
            return VConst('builtin', name)
        if name in BuiltinClass.HIER:
            return VConst('class', BuiltinClass(name))
        if name in ('True', 'False'):
            return VBool(name == 'True')
        raise OutOfSubset('unresolved name %s' % name)

    def global_value(self, r):
        kind = r[0]
        if kind == 'func':
            return VConst('func', r[1])
        if kind == 'class':
            return VConst('class', r[1])
        if kind == 'module':
            return VConst('module', r[1])
        if kind == 'extern':
            return VConst('extern', (r[1], r[2]))
        if kind == 'expr':
            _, mod, expr = r
            key = ('global', mod.name, id(expr))
            cache = self.reg.global_cache
            if key in cache:
                kindc, payload = cache[key]
                if kindc == 'sentinel':
                    return payload
            fr = Frame(None, {}, mod)
            if isinstance(expr, ast.Call) and isinstance(expr.func, ast.Name) and \
                    expr.func.id == 'object' and not expr.args:
                v = VConst('sentinel', expr)
                cache[key] = ('sentinel', v)
                return v
            return self.ev(expr, fr)
        raise OutOfSubset('global %r' % (r,))

    # ----------------------------------------------------------------- expressions
    def ev(self, node, fr):
        m = getattr(self, 'ev_' + type(node).__name__, None)
        if m is None:
            raise OutOfSubset('expression %s' % type(node).__name__)
        return m(node, fr)

    def ev_Constant(self, node, fr):
        v = node.value
        if v is None:
            return VNone
        if isinstance(v, bool):
            return VBool(v)
        if isinstance(v, int):
            return VInt(v)
        if isinstance(v, bytes):
            return VSeq(seq_of(list(v)), 'bytes')
        if isinstance(v, str):
            return VStr(v)
        if isinstance(v, float):
            return VFloat(z3.Real(self.path.fresh_name('flit'))) if v == v and abs(v) != float('inf') else VConst('pyfloat', v)
        raise OutOfSubset('constant %r' % (v,))

    def ev_Name(self, node, fr):
        return self.lookup(node.id, fr)

    def ev_Tuple(self, node, fr):
        return VTuple([self.ev(e, fr) for e in node.elts])

    def ev_List(self, node, fr):
        items = [self.ev(e, fr) for e in node.elts]
        if (fr.spec or items) and all(self.is_intlike(x) for x in items):
            # lists of ints are integer sequences (mutable); the empty literal in executable code stays a generic list
            return VSeq(seq_of_terms([self.as_int(x) for x in items]), 'list')
        return VList(items)

    def ev_Dict(self, node, fr):
        d = {}
        for k, v in zip(node.keys, node.values):
            kv = self.ev(k, fr)
            if isinstance(kv, VInt) and is_int_const(kv.t):
                key = kv.t.as_long()
            elif isinstance(kv, VStr) and z3.is_string_value(kv.t):
                key = kv.t.as_string()
            else:
                raise OutOfSubset('dict literal with symbolic key')
            d[key] = self.ev(v, fr)
        return VDict(d)

    def ev_ListComp(self, node, fr):
        # comprehensions over concrete-length iterables are unrolled; others yield an untracked list
        if len(node.generators) == 1 and not node.generators[0].ifs:
            g = node.generators[0]
            it = self.ev(g.iter, fr)
            if isinstance(it, (VTuple, VList)):
                out = []
                sub = Frame(fr.func, dict(fr.locals), fr.module, fr.cls)
                sub.spec = fr.spec
                sub.old = fr.old
                for x in it.items:
                    self.assign_target(g.target, x, sub)
                    out.append(self.ev(node.elt, sub))
                return VList(out)
        # an untracked comprehension is only sound when evaluating it has no effect: calls to methods of objects the
        # function can write (decoder.read_bit() ...) inside it would be lost
        PURE = {'len', 'chr', 'ord', 'str', 'int', 'repr', 'sorted', 'list', 'tuple', 'bytes', 'bytearray', 'format',
                'isinstance', 'hex', 'bin', 'range', 'zip', 'enumerate', 'reversed', 'min', 'max', 'sum', 'any', 'all',
                'format_bytes', 'format_or', 'format_and', 'type', 'float', 'bool', 'abs', 'dict', 'set'}
        for c_ in [x for g_ in node.generators for x in ast.walk(g_)] + list(ast.walk(getattr(node, 'elt', None) or node.key)) + \
                (list(ast.walk(node.value)) if isinstance(node, ast.DictComp) else []):
            if isinstance(c_, ast.Call):
                f_ = c_.func
                nm_ = f_.id if isinstance(f_, ast.Name) else (f_.attr if isinstance(f_, ast.Attribute) else None)
                if nm_ in PURE or (isinstance(f_, ast.Attribute) and nm_ in ('get', 'items', 'values', 'keys', 'format', 'join',
                                                                           'encode', 'decode', 'upper', 'lower', 'split',
                                                                           'startswith', 'endswith', 'replace', 'strip')):
                    continue
                if not fr.spec:
                    raise OutOfSubset('comprehension over a symbolic iterable calls %s (its effects would be lost)' % nm_)
        self.path.notes.append('untracked comprehension at line %d' % node.lineno)
        return VAbsList('list')

    def ev_GeneratorExp(self, node, fr):
        return self.ev_ListComp(node, fr)

    def ev_JoinedStr(self, node, fr):
        return VStr(self.path.fresh_str('fstr'))

    def ev_Lambda(self, node, fr):
        return VConst('lambda', (node, fr))

    def ev_Attribute(self, node, fr):
        base = self.ev(node.value, fr)
        return self.getattr(base, node.attr, fr)

    def attr_assigned_in_class(self, cls, attr):
        cache = self.prog.__dict__.setdefault('_attr_assigned', {})
        key = (cls.ident if hasattr(cls, 'ident') else id(cls), attr)
        if key not in cache:
            found = False
            for c in self.prog.mro(cls):
                if not isinstance(c, ClassInfo):
                    continue
                for f in c.methods.values():
                    for n in ast.walk(f.node):
                        if isinstance(n, ast.Attribute) and n.attr == attr and isinstance(n.ctx, ast.Store) \
                                and isinstance(n.value, ast.Name) and n.value.id == 'self':
                            found = True
            cache[key] = found
        return cache[key]

    def getattr(self, base, attr, fr, default=None):
        if isinstance(base, VObj):
            if attr in base.fields:
                v = base.fields[attr]
                if isinstance(v, VLazy):
                    v = self.force(v)
                    base.fields[attr] = v
                return v
            if attr == '__class__':
                return VConst('class', base.cls)
            cls = base.cls
            f = self.prog.find_method(cls, attr)
            if f is not None:
                if '@property' in ['@' + d for d in f.decorators] or 'property' in f.decorators:
                    return self.call_function(f, [base], {}, fr, self_cls=cls)
                return VBound(base, attr, f)
            ca = self.prog.find_class_attr(cls, attr) if isinstance(cls, ClassInfo) else None
            if ca is not None:
                c, expr = ca
                return self.ev(expr, Frame(None, {}, c.module))
            if default is not None:
                return default
            decl = self.reg.declared_fields(cls)
            if attr in decl:
                raise OutOfSubset('field %s.%s declared but not initialised' % (cls.name, attr))
            if fr.spec:
                raise OutOfSubset('contract reads undeclared attribute %s.%s' % (cls.name, attr))
            if isinstance(cls, ClassInfo) and self.attr_assigned_in_class(cls, attr):
                # the class does set this attribute (e.g. in __init__) but no sidecar declares it: an existing field
                # of unknown value, not an AttributeError (a new cached attribute must not raise an alarm by itself)
                v = VOpaque(self.path.fresh_val('field.' + attr))
                base.fields[attr] = v
                self.path.notes.append('undeclared field %s.%s read as an unknown value' % (cls.name, attr))
                return v
            raise PyRaise(self.builtin_exc('AttributeError', VStr(attr)))
        if isinstance(base, VConst):
            if base.kind == 'class':
                cls = base.py
                if attr == '__name__':
                    return VStr(cls.name)
                ca = self.prog.find_class_attr(cls, attr) if isinstance(cls, ClassInfo) else None
                if ca is not None:
                    c, expr = ca
                    return self.ev(expr, Frame(None, {}, c.module))
                f = self.prog.find_method(cls, attr) if isinstance(cls, ClassInfo) else None
                if f is not None:
                    return VConst('func', f)
                raise OutOfSubset('class attribute %s.%s' % (cls.name, attr))
            if base.kind == 'module':
                modname = base.py
                if modname in self.prog.modules:
                    r = self.prog.resolve(self.prog.modules[modname], attr)
                    if r is None:
                        sub = modname + '.' + attr
                        if sub in self.prog.modules:
                            return VConst('module', sub)
                        raise OutOfSubset('module attribute %s.%s' % (modname, attr))
                    return self.global_value(r)
                if modname == 'sys' and attr == 'version_info':
                    return VTuple([VInt(3), VInt(12), VInt(0)])      # the interpreter the repository runs on
                return VConst('extern', (modname, attr))
            if base.kind == 'extern':
                return VConst('extern', (base.py[0] + '.' + base.py[1], attr))
            if base.kind == 'super':
                cls_after, obj = base.py
                f = self.prog.find_method(obj.cls, attr, after=cls_after)
                if f is None:
                    return VBound(obj, attr, ('builtin-super', cls_after))
                return VBound(obj, attr, f)
        if default is not None:
            return default
        return VBound(base, attr)

    def ev_Subscript(self, node, fr):
        base = self.ev(node.value, fr)
        if isinstance(node.slice, ast.Slice):
            lo = self.ev(node.slice.lower, fr) if node.slice.lower is not None else None
            hi = self.ev(node.slice.upper, fr) if node.slice.upper is not None else None
            st = self.ev(node.slice.step, fr) if node.slice.step is not None else None
            return self.slice(base, lo, hi, st, fr)
        idx = self.ev(node.slice, fr)
        return self.index(base, idx, fr)

    def implied(self, cond):
        """is cond implied by the current path condition? (cheap query; False when unsure)"""
        c = z3.simplify(cond)
        if z3.is_true(c):
            return True
        if z3.is_false(c):
            return False
        return guarded_check(self.path.solver, 6.0, z3.Not(c)) == z3.unsat

    def norm_index(self, i, n):
        """python slice-bound normalisation (clamped); simplified under the path condition"""
        i = z3.simplify(i)
        if is_int_const(i):
            k = i.as_long()
            if k == 0:
                return z3.IntVal(0)
            if k > 0:
                if is_int_const(n):
                    return z3.IntVal(min(k, n.as_long()))
                if self.implied(i <= n):
                    return i
                return z3.If(i <= n, i, n)
            if self.implied(i + n >= 0):
                return i + n
            return z3.If(i + n < 0, z3.IntVal(0), i + n)
        if self.implied(i >= 0):
            if self.implied(i <= n):
                return i
            return z3.If(i <= n, i, n)
        return z3.If(i < 0, z3.If(i + n < 0, z3.IntVal(0), i + n), z3.If(i <= n, i, n))

    def slice(self, base, lo, hi, st, fr):
        if st is not None:
            if isinstance(st, VInt) and is_int_const(st.t) and st.t.as_long() == -1 and lo is None and hi is None:
                if isinstance(base, VSeq):
                    r = self.call_spec('rev', VSeq(base.t, 'list'))
                    return VSeq(r.t, base.kind)
                if isinstance(base, (VTuple, VList)):
                    return type(base)(list(reversed(base.items)))
            raise OutOfSubset('slice step')
        if isinstance(base, VConst) and base.kind == 'hexstr':
            if isinstance(lo, VInt) and is_int_const(lo.t) and lo.t.as_long() == 4 and (hi is None or hi is VNone):
                return VConst('hexstr_tail', base.py)
            raise OutOfSubset('slice of hex() string other than [4:]')
        if isinstance(base, VConst) and base.kind == 'binstr':
            # bin(x) for x >= 0 is '0b' followed by the binary digits of x (spec function bin_digits)
            x_ = self.as_int(base.py)
            if not self.implied(x_ >= 0):
                raise OutOfSubset('slice of bin() of a possibly negative number')
            base = VStr(z3.Concat(z3.StringVal('0b'), self.call_spec('bin_digits', VInt(x_)).t))
        if isinstance(base, (VSeq, VStr)):
            n = z3.Length(base.t)
            l = self.norm_index(self.as_int(lo), n) if lo is not None and lo is not VNone else z3.IntVal(0)
            h = self.norm_index(self.as_int(hi), n) if hi is not None and hi is not VNone else n
            ln = z3.simplify(h - l)
            if not (is_int_const(ln) and ln.as_long() >= 0) and not self.implied(ln >= 0):
                ln = z3.If(ln > 0, ln, z3.IntVal(0))
            t = z3.SubSeq(base.t, l, ln) if isinstance(base, VSeq) else z3.SubString(base.t, l, ln)
            if isinstance(base, VStr):
                return VStr(t)
            return VSeq(t, base.kind)
        if isinstance(base, (VTuple, VList)):
            def c(x):
                if x is None or x is VNone:
                    return None
                if isinstance(x, VInt) and is_int_const(x.t):
                    return x.t.as_long()
                raise OutOfSubset('symbolic slice of concrete list')
            return type(base)(base.items[c(lo):c(hi)])
        raise OutOfSubset('slice of %r' % (base,))

    def index(self, base, idx, fr, store=None):
        if isinstance(base, (VSeq, VStr)):
            i = self.as_int(idx)
            n = z3.Length(base.t)
            if fr.spec:
                if (is_int_const(i) and i.as_long() >= 0) or self.implied(i >= 0):
                    j = i
                else:
                    j = z3.If(i < 0, i + n, i)
            else:
                ok = z3.And(i >= -n, i < n) if not (is_int_const(i) and i.as_long() >= 0) else i < n
                if not self.path.branch(ok, 'index'):
                    self.raise_builtin('IndexError', 'index out of range')
                j = z3.If(i < 0, i + n, i) if not (is_int_const(i) and i.as_long() >= 0) else i
                j = z3.simplify(j)
            if isinstance(base, VStr):
                return VStr(z3.SubString(base.t, j, 1))
            e = base.t[j]
            if base.is_bytes:
                # type invariant of python bytes/bytearray (for an out-of-range j the term is unspecified anyway)
                self.path.assume(z3.And(e >= 0, e <= 255))
            return VInt(e)
        if isinstance(base, (VTuple, VList)):
            if isinstance(idx, VInt) and is_int_const(idx.t):
                k = idx.t.as_long()
                if -len(base.items) <= k < len(base.items):
                    return base.items[k]
                if fr.spec:
                    # ill-typed sub-term of a clause (guarded elsewhere in the clause): unspecified value
                    return VSeq(self.path.fresh_seq('undef'), 'list')
                self.raise_builtin('IndexError', 'index out of range')
            raise OutOfSubset('symbolic index into concrete tuple/list')
        if isinstance(base, VDict):
            return self.dict_get(base, idx, fr)
        if isinstance(base, VConst) and base.kind == 'objseq':
            i = self.as_int(idx)
            if not fr.spec:
                if not self.path.branch(z3.And(i >= 0, i < base.py.length), 'index'):
                    self.raise_builtin('IndexError', 'list index out of range')
            return base.py.at(self, i)
        if isinstance(base, VMap):
            k = base.key_term(self, idx)
            if k is None:
                if fr.spec:
                    return base.get(self, {'int': VInt(self.path.fresh_int('undef')),
                                           'str': VStr(self.path.fresh_str('undef')),
                                           'bytes': VSeq(self.path.fresh_seq('undef'), 'bytes'),
                                           'val': VOpaque(self.path.fresh_val('undef'))}[base.keykind])
                raise PyRaise(self.builtin_exc('KeyError', idx))     # a key of another python type is absent
            if not fr.spec:
                if not self.path.branch(base.has(k), 'key'):
                    raise PyRaise(self.builtin_exc('KeyError', idx))
            return base.get(self, idx)
        if fr.spec and (base is VNone or isinstance(base, (VInt, VBool, VFloat))):
            return VInt(self.path.fresh_int('undef'))      # ill-typed sub-term guarded elsewhere in the clause
        if not fr.spec and (base is VNone or isinstance(base, (VInt, VBool, VFloat))):
            self.raise_builtin('TypeError', 'object is not subscriptable')
        raise OutOfSubset('index of %r' % (base,))

    def dict_get(self, d, key, fr):
        if isinstance(key, VInt):
            if is_int_const(key.t):
                k = key.t.as_long()
                if k in d.d:
                    return d.d[k]
                raise PyRaise(self.builtin_exc('KeyError', key))
            for k, v in d.d.items():
                if isinstance(k, int) and self.path.branch(key.t == k, 'dictkey'):
                    return v
            raise PyRaise(self.builtin_exc('KeyError', key))
        if isinstance(key, VStr):
            if z3.is_string_value(key.t):
                k = key.t.as_string()
                if k in d.d:
                    return d.d[k]
                raise PyRaise(self.builtin_exc('KeyError', key))
            for k, v in d.d.items():
                if isinstance(k, str) and self.path.branch(key.t == z3.StringVal(k), 'dictkey'):
                    return v
            raise PyRaise(self.builtin_exc('KeyError', key))
        raise OutOfSubset('dict key %r' % (key,))

    def ev_UnaryOp(self, node, fr):
        v = self.ev(node.operand, fr)
        if isinstance(node.op, ast.Not):
            if fr.spec:
                return VBool(z3.Not(self.truth(v)))
            return VBool(z3.Not(self.truth(v)))
        if isinstance(node.op, ast.USub):
            if isinstance(v, VFloat):
                return VFloat(-v.t)
            return VInt(z3.simplify(-self.as_int(v)))
        if isinstance(node.op, ast.UAdd):
            return VInt(self.as_int(v))
        if isinstance(node.op, ast.Invert):
            return VInt(-self.as_int(v) - 1)
        raise OutOfSubset('unary op')

    def ev_BoolOp(self, node, fr):
        if fr.spec:
            vals = [self.ev(e, fr) for e in node.values]
            ts = [self.truth(v) for v in vals]
            return VBool(z3.And(ts) if isinstance(node.op, ast.And) else z3.Or(ts))
        # exec mode: short circuit by forking; the value is the deciding operand
        last = None
        for i, e in enumerate(node.values):
            last = self.ev(e, fr)
            if i == len(node.values) - 1:
                return last
            t = self.path.branch(self.truth(last), 'boolop')
            if isinstance(node.op, ast.And) and not t:
                return last
            if isinstance(node.op, ast.Or) and t:
                return last
        return last

    def ev_IfExp(self, node, fr):
        c = self.ev(node.test, fr)
        if fr.spec:
            ct = z3.simplify(self.truth(c))
            if z3.is_true(ct):
                return self.ev(node.body, fr)
            if z3.is_false(ct):
                return self.ev(node.orelse, fr)
            return ite_v(ct, self.ev(node.body, fr), self.ev(node.orelse, fr))
        if self.path.branch(self.truth(c), 'ifexp'):
            return self.ev(node.body, fr)
        return self.ev(node.orelse, fr)

    def ev_Compare(self, node, fr):
        left = self.ev(node.left, fr)
        conj = []
        for op, rnode in zip(node.ops, node.comparators):
            right = self.ev(rnode, fr)
            conj.append(self.compare(op, left, right, fr))
            left = right
        if len(conj) == 1:
            return VBool(conj[0])
        return VBool(z3.And(conj))

    def compare(self, op, a, b, fr):
        if (isinstance(a, VConst) and a.kind == 'pyfloat') or (isinstance(b, VConst) and b.kind == 'pyfloat'):
            return self.path.fresh_bool('floatcmp')          # comparison with inf/nan/float literal: not modelled
        if (isinstance(a, VFloat) or isinstance(b, VFloat)) and isinstance(op, (ast.Eq, ast.NotEq)):
            return self.path.fresh_bool('floateq')
        if isinstance(op, ast.Eq):
            return v_eq(a, b)
        if isinstance(op, ast.NotEq):
            return z3.Not(v_eq(a, b))
        if isinstance(op, (ast.Is, ast.IsNot)):
            if (a is VNone and isinstance(b, VOpaque)) or (b is VNone and isinstance(a, VOpaque)):
                # a value of unknown python type may be None (the value of a NULL component is None)
                o_ = b if a is VNone else a
                r = z3.Function('py_is_none_val', ValS, BoolS)(o_.t)
            elif a is VNone or b is VNone:
                r = z3.BoolVal(a is b)
            elif isinstance(a, VConst) and isinstance(b, VConst):
                r = z3.BoolVal(a.py is b.py)
            elif isinstance(a, VConst) or isinstance(b, VConst):
                r = z3.BoolVal(False)
            elif isinstance(a, VOpaque) and isinstance(b, VOpaque):
                r = a.t == b.t
            elif isinstance(a, VBool) and isinstance(b, VBool):
                r = a.t == b.t
            elif isinstance(a, VObj) and isinstance(b, VObj):
                r = v_eq(a, b)
            else:
                raise OutOfSubset('is between %r and %r' % (a, b))
            return r if isinstance(op, ast.Is) else z3.Not(r)
        if isinstance(op, (ast.In, ast.NotIn)):
            r = self.contains(b, a, fr)
            return r if isinstance(op, ast.In) else z3.Not(r)
        if isinstance(a, VFloat) or isinstance(b, VFloat):
            x = a.t if isinstance(a, VFloat) else z3.ToReal(self.as_int(a))
            y = b.t if isinstance(b, VFloat) else z3.ToReal(self.as_int(b))
        elif self.is_intlike(a) and self.is_intlike(b):
            x, y = self.as_int(a), self.as_int(b)
        elif isinstance(a, VStr) and isinstance(b, VStr):
            x, y = a.t, b.t
        elif isinstance(a, VSeq) and isinstance(b, VSeq) and fr.spec:
            r = self.call_spec('seq_lt', VSeq(a.t, 'list'), VSeq(b.t, 'list')).t
            req = a.t == b.t
            if isinstance(op, ast.Lt):
                return r
            if isinstance(op, ast.LtE):
                return z3.Or(r, req)
            if isinstance(op, ast.Gt):
                return z3.And(z3.Not(r), z3.Not(req))
            return z3.Not(r)
        else:
            if not fr.spec and (a is VNone or b is VNone or
                                (isinstance(a, VStr) != isinstance(b, VStr))):
                self.raise_builtin('TypeError', 'unorderable types')
            if fr.spec and (a is VNone or b is VNone or (isinstance(a, VStr) != isinstance(b, VStr))):
                return self.path.fresh_bool('undef')
            raise OutOfSubset('ordering of %r and %r' % (a, b))
        if isinstance(op, ast.Lt):
            return x < y
        if isinstance(op, ast.LtE):
            return x <= y
        if isinstance(op, ast.Gt):
            return x > y
        if isinstance(op, ast.GtE):
            return x >= y
        raise OutOfSubset('compare op')

    def contains(self, container, item, fr):
        if fr.spec and container is VNone:
            return self.path.fresh_bool('undef')      # ill-typed sub-term guarded elsewhere in the clause
        if isinstance(container, VSeq):
            return z3.Contains(container.t, z3.Unit(self.as_int(item)))
        if isinstance(container, VStr) and isinstance(item, VStr):
            return z3.Contains(container.t, item.t)
        if isinstance(container, (VTuple, VList)):
            if not container.items:
                return z3.BoolVal(False)
            return z3.Or([v_eq(item, x) for x in container.items])
        if isinstance(container, VDict):
            ks = []
            for k in container.d:
                kv = VInt(k) if isinstance(k, int) else VStr(k)
                ks.append(v_eq(item, kv))
            return z3.Or(ks) if ks else z3.BoolVal(False)
        if isinstance(container, VConst) and container.kind == 'extern':
            return self.path.fresh_bool('in_extern')      # membership in a stdlib constant (string.printable, ...)
        if isinstance(container, VMap):
            k = container.key_term(self, item)
            return container.has(k) if k is not None else z3.BoolVal(False)
        raise OutOfSubset('in %r' % (container,))

    def ev_BinOp(self, node, fr):
        a = self.ev(node.left, fr)
        b = self.ev(node.right, fr)
        return self.binop(node.op, a, b, fr, node)

    def binop(self, op, a, b, fr, node=None):
        if fr.spec and (a is VNone or b is VNone or
                        (isinstance(a, VStr) != isinstance(b, VStr) and not isinstance(op, ast.Mult)) or
                        (isinstance(a, VStr) and isinstance(b, VStr) and not isinstance(op, ast.Add))):
            # ill-typed sub-term of a contract clause (guarded elsewhere in the clause): unspecified value
            return VInt(self.path.fresh_int('undef'))
        if isinstance(a, VFloat) or isinstance(b, VFloat):
            x = a.t if isinstance(a, VFloat) else z3.ToReal(self.as_int(a))
            y = b.t if isinstance(b, VFloat) else z3.ToReal(self.as_int(b))
            if isinstance(op, ast.Add):
                return VFloat(x + y)
            if isinstance(op, ast.Sub):
                return VFloat(x - y)
            if isinstance(op, ast.Mult):
                return VFloat(z3.Real(self.path.fresh_name('fmul')))
            raise OutOfSubset('float op')
        if self.is_intlike(a) and self.is_intlike(b):
            x, y = self.as_int(a), self.as_int(b)
            if is_int_const(x) and is_int_const(y) and isinstance(op, (ast.LShift, ast.RShift, ast.FloorDiv, ast.Mod)):
                xv, yv = x.as_long(), y.as_long()
                if isinstance(op, ast.LShift) and 0 <= yv < 100000:
                    return VInt(xv << yv)
                if isinstance(op, ast.RShift) and yv >= 0:
                    return VInt(xv >> yv)
                if isinstance(op, ast.FloorDiv) and yv > 0:
                    return VInt(xv // yv)
                if isinstance(op, ast.Mod) and yv > 0:
                    return VInt(xv % yv)
            if isinstance(op, ast.Add):
                return VInt(x + y)
            if isinstance(op, ast.Sub):
                return VInt(x - y)
            if isinstance(op, ast.Mult):
                return VInt(x * y)
            if isinstance(op, (ast.FloorDiv, ast.Mod)):
                if is_int_const(y) and y.as_long() > 0:
                    pass
                elif is_int_const(y) and y.as_long() == 0:
                    self.raise_builtin('ZeroDivisionError')
                elif fr.spec:
                    pass
                else:
                    if self.path.branch(y == 0, 'div0'):
                        self.raise_builtin('ZeroDivisionError')
                    if not self.path.branch(y > 0, 'divsign'):
                        # floor semantics for negative divisor: -( (-x) // (-y) ) ... keep exact
                        q = -((-x) / (-y)) if False else None
                        raise OutOfSubset('negative divisor')
                if isinstance(op, ast.Mod) and not is_int_const(y):
                    return VInt(self.mod_pos(x, y))
                return VInt(x / y) if isinstance(op, ast.FloorDiv) else VInt(x % y)
            if isinstance(op, ast.LShift):
                self.check_shift(y, fr)
                if is_int_const(y):
                    return VInt(x * z3.IntVal(1 << y.as_long()))
                # a left shift by a computed amount builds an integer of that many bits: an allocation (C08)
                self.alloc_obligation(y, fr, node, 'x << n')
                return VInt(x * self.pow2(y, fr))
            if isinstance(op, ast.RShift):
                self.check_shift(y, fr)
                if is_int_const(y):
                    return VInt(x / z3.IntVal(1 << y.as_long()))
                return VInt(x / self.pow2(y, fr))
            if isinstance(op, ast.BitAnd):
                return VInt(self.bitand(x, y, node, fr))
            if isinstance(op, ast.BitOr):
                return VInt(self.bitor(x, y, fr))
            if isinstance(op, ast.BitXor):
                if is_int_const(x) and is_int_const(y):
                    return VInt(x.as_long() ^ y.as_long())
                # x ^ y == x + y - 2*(x & y) for all integers
                return VInt(x + y - 2 * self.bitand(x, y, node, fr))
            if isinstance(op, ast.Pow):
                if is_int_const(x) and x.as_long() == 2:
                    if not fr.spec and not (is_int_const(y) and y.as_long() >= 0):
                        if self.path.branch(y < 0, 'pow'):
                            raise OutOfSubset('negative exponent (float result)')
                    return VInt(self.pow2(y))
                if is_int_const(y) and 0 <= y.as_long() <= 4:
                    r = z3.IntVal(1)
                    for _ in range(y.as_long()):
                        r = r * x
                    return VInt(r)
                if is_int_const(x) and x.as_long() == 256:
                    return VInt(self.pow2(8 * y))
                raise OutOfSubset('general **')
            raise OutOfSubset('int binop %s' % type(op).__name__)
        if isinstance(a, VSeq) and isinstance(b, VList) and all(self.is_intlike(x) for x in b.items):
            b = VSeq(seq_of_terms([self.as_int(x) for x in b.items]), a.kind)
        if isinstance(b, VSeq) and isinstance(a, VList) and all(self.is_intlike(x) for x in a.items):
            a = VSeq(seq_of_terms([self.as_int(x) for x in a.items]), b.kind)
        if isinstance(a, VSeq) and isinstance(b, VSeq):
            if isinstance(op, ast.Add):
                if a.is_bytes != b.is_bytes and not fr.spec:
                    self.raise_builtin('TypeError', 'concat bytes/list')
                return VSeq(z3.Concat(a.t, b.t), a.kind)
        if isinstance(a, VStr) and isinstance(b, VStr):
            if isinstance(op, ast.Add):
                return VStr(z3.Concat(a.t, b.t))
        if isinstance(b, (VStr, VSeq)) and self.is_intlike(a) and isinstance(op, ast.Mult):
            a, b = b, a                     # n * seq == seq * n
        if isinstance(a, (VStr, VSeq)) and self.is_intlike(b) and isinstance(op, ast.Mult):
            self.alloc_obligation(self.as_int(b) * (1 if isinstance(a, VStr) else z3.Length(a.t)), fr, node, 'seq * n')
        if isinstance(a, VStr) and self.is_intlike(b) and isinstance(op, ast.Mult):
            return VStr(self.call_spec('str_repeat', a, VInt(self.as_int(b))).t)
        if isinstance(a, VSeq) and self.is_intlike(b) and isinstance(op, ast.Mult):
            r = self.call_spec('seq_repeat', VSeq(a.t, 'list'), VInt(self.as_int(b)))
            return VSeq(r.t, a.kind)
        if isinstance(a, (VTuple, VList)) and type(a) is type(b) and isinstance(op, ast.Add):
            return type(a)(a.items + b.items)
        if isinstance(op, ast.Mult) and ((isinstance(a, VList) and self.is_intlike(b)) or (isinstance(b, VList) and self.is_intlike(a))):
            lst, cnt = (a, b) if isinstance(a, VList) else (b, a)
            n_ = z3.simplify(self.as_int(cnt))
            if is_int_const(n_) and n_.as_long() <= 64:
                return VList(lst.items * max(n_.as_long(), 0))
            if fr.spec:
                raise OutOfSubset('list repetition in a clause')
            # allocation obligation (C08): a container sized by a number must be bounded by the size of the input
            # (the declared alloc_bound of the contract, or the decoder's / data's length)
            self.prove(n_ * len(lst.items) <= self.alloc_bound(fr), 'alloc', 'alloc.bounded(list * n)',
                       getattr(node, 'lineno', 0))
            return VAbsList('list')
        if isinstance(a, VStr) and isinstance(op, ast.Mod):
            return VStr(self.path.fresh_str('fmt'))
        if not fr.spec and isinstance(op, (ast.Add, ast.Sub, ast.Mult)) and \
                (a is VNone or b is VNone or isinstance(a, VStr) != isinstance(b, VStr)):
            self.raise_builtin('TypeError', 'unsupported operand types')
        if fr.spec and isinstance(op, (ast.Add, ast.Sub, ast.Mult, ast.FloorDiv, ast.Mod)) and \
                (isinstance(a, (VStr, VNoneT)) or isinstance(b, (VStr, VNoneT))):
            # ill-typed sub-term of a clause (guarded elsewhere in the clause): unspecified value
            return VInt(self.path.fresh_int('undef'))
        raise OutOfSubset('binop %s on %r, %r' % (type(op).__name__, a, b))

    def check_shift(self, y, fr):
        if fr.spec:
            return
        if is_int_const(y):
            if y.as_long() < 0:
                self.raise_builtin('ValueError', 'negative shift count')
            return
        if self.path.branch(y < 0, 'shift'):
            self.raise_builtin('ValueError', 'negative shift count')

    def bitand(self, x, y, node, fr):
        x, y = z3.simplify(x), z3.simplify(y)
        if is_int_const(x) and is_int_const(y):
            return z3.IntVal(x.as_long() & y.as_long())
        if is_int_const(y) and y.as_long() >= 0:
            return and_const(x, y.as_long())
        if is_int_const(x) and x.as_long() >= 0:
            return and_const(y, x.as_long())
        # x & ~k == x - (x & k) for a non-negative constant k (a negative mask is ~k)
        if is_int_const(y) and y.as_long() < 0:
            return x - and_const(x, -y.as_long() - 1)
        if is_int_const(x) and x.as_long() < 0:
            return y - and_const(y, -x.as_long() - 1)
        # structural patterns on the operand terms: pow2(k) and pow2(k)-1
        for u, w in ((x, y), (y, x)):
            k = self.match_pow2(w)
            if k is not None:
                p = self.pow2(k)
                return ((u / p) % 2) * p
            k = self.match_pow2_minus1(w)
            if k is not None:
                return self.mod_pos(u, self.pow2(k))
        return self.as_int(self.call_spec('band', VInt(x), VInt(y)))

    def mod_pos(self, x, p):
        """x % p for a symbolic divisor: the remainder bound (floor semantics, p > 0) is supplied as a ground fact
        because the solvers do not derive it for non-constant divisors"""
        x = z3.simplify(x)
        # (a % p) % p == a % p
        if z3.is_app(x) and x.decl().kind() == z3.Z3_OP_MOD and x.num_args() == 2 and x.arg(1).eq(p):
            return x
        r = x % p
        self.path.assume(z3.Implies(p > 0, z3.And(r >= 0, r < p)))
        return r

    def match_pow2(self, t):
        """t == 1 * pow2(k) as built by `1 << k` / `2 ** k`"""
        t = z3.simplify(t)
        if z3.is_app(t) and t.decl().name() == 'pow2' and t.num_args() == 1:
            return t.arg(0)
        if z3.is_mul(t) and t.num_args() == 2:
            a, b = t.arg(0), t.arg(1)
            if is_int_const(a) and a.as_long() == 1:
                return self.match_pow2(b)
        return None

    def match_pow2_minus1(self, t):
        t = z3.simplify(t)
        if z3.is_add(t) and t.num_args() == 2:
            a, b = t.arg(0), t.arg(1)
            if is_int_const(a) and a.as_long() == -1:
                return self.match_pow2(b)
            if is_int_const(b) and b.as_long() == -1:
                return self.match_pow2(a)
        return None

    def bitor(self, x, y, fr):
        x, y = z3.simplify(x), z3.simplify(y)
        if is_int_const(x) and is_int_const(y):
            return z3.IntVal(x.as_long() | y.as_long())
        if is_int_const(y) and y.as_long() >= 0:
            return x + y - and_const(x, y.as_long())
        if is_int_const(x) and x.as_long() >= 0:
            return x + y - and_const(y, x.as_long())
        r = self.as_int(self.call_spec('bor', VInt(x), VInt(y)))
        # disjoint-or lemma instances: (a * pow2(n)) | b == a*pow2(n) + b  when 0 <= b < pow2(n)
        for u, w in ((x, y), (y, x)):
            n = self.match_shifted(u)
            if n is not None:
                p = n
                self.path.assume(z3.Implies(z3.And(w >= 0, w < p, u >= 0), r == u + w))
        return r

    def match_shifted(self, t):
        """if t is syntactically  a * P  with P = pow2(k) or constant power of two, return P"""
        if z3.is_mul(t):
            for i in range(t.num_args()):
                a = t.arg(i)
                if z3.is_app(a) and a.decl().name() == 'pow2':
                    return a
            for i in range(t.num_args()):
                a = t.arg(i)
                if is_int_const(a) and a.as_long() > 0 and a.as_long() & (a.as_long() - 1) == 0:
                    return a
        return None

    def ev_Call(self, node, fr):
        # super()
        if isinstance(node.func, ast.Name) and node.func.id == 'super':
            obj = fr.locals.get('self')
            if obj is None or fr.cls is None:
                raise OutOfSubset('super() outside method')
            return VConst('super', (fr.cls, obj))
        if isinstance(node.func, ast.Name) and node.func.id == 'old' and fr.spec:
            if fr.old is None:
                raise OutOfSubset('old() without pre-state')
            return self.ev(node.args[0], fr.old)
        if isinstance(node.func, ast.Name) and node.func.id == 'at_entry' and fr.spec:
            k_ = ast.literal_eval(node.args[1])
            en = getattr(fr, 'entries', {}).get(k_)
            if en is None:
                raise OutOfSubset('at_entry(.., %r): loop %r has not been entered' % (k_, k_))
            return self.ev(node.args[0], en)
        if isinstance(node.func, ast.Name) and node.func.id == 'at_head' and fr.spec:
            if len(node.args) > 1:
                k_ = ast.literal_eval(node.args[1])
                hd = getattr(fr, 'heads', {}).get(k_)
                if hd is None:
                    raise OutOfSubset('at_head(.., %r): loop %r is not active' % (k_, k_))
                return self.ev(node.args[0], hd)
            if getattr(fr, 'head', None) is None:
                raise OutOfSubset('at_head() outside a loop annotation')
            return self.ev(node.args[0], fr.head)
        if isinstance(node.func, ast.Name) and fr.spec and node.func.id in ('forall', 'exists'):
            return self.quantifier(node, fr)
        fn = self.ev(node.func, fr)
        args = []
        for a in node.args:
            if isinstance(a, ast.Starred):
                sv = self.ev(a.value, fr)
                if isinstance(sv, (VTuple, VList)):
                    args.extend(sv.items)
                else:
                    raise OutOfSubset('star-args of symbolic sequence')
            else:
                args.append(self.ev(a, fr))
        kwargs = {}
        for k in node.keywords:
            if k.arg is None:
                kv = self.ev(k.value, fr)
                if isinstance(kv, VDict) and all(isinstance(x, str) for x in kv.d):
                    kwargs.update(kv.d)
                    continue
                raise OutOfSubset('**kwargs of a symbolic mapping')
            kwargs[k.arg] = self.ev(k.value, fr)
        return self.call(fn, args, kwargs, fr, node)

    def quantifier(self, node, fr):
        lam = node.args[0]
        if not isinstance(lam, ast.Lambda):
            raise OutOfSubset('forall needs a lambda')
        names = [a.arg for a in lam.args.args]
        vars_ = [z3.Int(self.path.fresh_name('q_' + n)) for n in names]
        sub = Frame(fr.func, dict(fr.locals), fr.module, fr.cls)
        sub.spec = True
        sub.old = fr.old
        sub.target_module = getattr(fr, 'target_module', None)
        for n, v in zip(names, vars_):
            sub.locals[n] = VInt(v)
        body = self.truth(self.ev(lam.body, sub))
        if node.func.id == 'forall':
            return VBool(z3.ForAll(vars_, body))
        return VBool(z3.Exists(vars_, body))

    # ----------------------------------------------------------------- calls
    def call(self, fn, args, kwargs, fr, node=None):
        from . import builtins as B
        if isinstance(fn, VConst):
            if fn.kind == 'builtin':
                return B.call_builtin(self, fn.py, args, kwargs, fr)
            if fn.kind == 'func':
                return self.call_function(fn.py, args, kwargs, fr)
            if fn.kind == 'class':
                return self.instantiate(fn.py, args, kwargs, fr)
            if fn.kind == 'extern':
                return B.call_extern(self, fn.py, args, kwargs, fr)
            if fn.kind == 'specfn':
                return self.call_spec_function(fn.py, args, kwargs)
            if fn.kind == 'lambda':
                lnode, lfr = fn.py
                sub = Frame(lfr.func, dict(lfr.locals), lfr.module, lfr.cls)
                sub.spec = lfr.spec
                for a, v in zip(lnode.args.args, args):
                    sub.locals[a.arg] = v
                return self.ev(lnode.body, sub)
        if isinstance(fn, VBound):
            recv = fn.recv
            if isinstance(fn.func, FuncInfo):
                return self.call_function(fn.func, [recv] + args, kwargs, fr,
                                          self_cls=recv.cls if isinstance(recv, VObj) else None)
            if isinstance(fn.func, tuple) and fn.func[0] == 'builtin-super':
                return B.call_builtin_super(self, recv, fn.name, args, kwargs, fr)
            return B.call_method(self, recv, fn.name, args, kwargs, fr)
        raise OutOfSubset('call of %r' % (fn,))

    def instantiate(self, cls, args, kwargs, fr):
        if isinstance(cls, BuiltinClass):
            return VObj(cls, {'args': VTuple(args)})
        obj = VObj(cls, {})
        init = self.prog.find_method(cls, '__init__')
        if init is not None:
            self.call_function(init, [obj] + args, kwargs, fr, self_cls=cls, force_inline_ctor=True)
        else:
            if self.prog.issubclass(cls, BuiltinClass('BaseException')):
                obj.fields['args'] = VTuple(args)
        return obj

    def bind_args(self, func, args, kwargs, fr):
        a = func.node.args
        params = [p.arg for p in a.posonlyargs + a.args]
        defaults = a.defaults
        locals_ = {}
        if len(args) > len(params) and not a.vararg:
            raise OutOfSubset('too many positional args for %s' % func.ident)
        for name, v in zip(params, args):
            locals_[name] = v
        if a.vararg:
            locals_[a.vararg.arg] = VTuple(args[len(params):])
        kw = dict(kwargs)
        dfr = Frame(None, {}, func.module)
        for i, name in enumerate(params):
            if name in locals_:
                continue
            if name in kw:
                locals_[name] = kw.pop(name)
                continue
            di = i - (len(params) - len(defaults))
            if di >= 0:
                locals_[name] = self.ev(defaults[di], dfr)
            else:
                raise OutOfSubset('missing argument %s for %s' % (name, func.ident))
        for p, d in zip(a.kwonlyargs, a.kw_defaults):
            if p.arg in kw:
                locals_[p.arg] = kw.pop(p.arg)
            elif d is not None:
                locals_[p.arg] = self.ev(d, dfr)
        if a.kwarg:
            locals_[a.kwarg.arg] = VDict({k: v for k, v in kw.items()})
            kw = {}
        if kw:
            raise OutOfSubset('unexpected kwargs %s for %s' % (list(kw), func.ident))
        return locals_

    def call_function(self, func, args, kwargs, fr, self_cls=None, force_inline_ctor=False):
        if self.reg.is_spec_module(func.module) and not self.reg.is_lemma(func):
            return self.call_spec_function(func, args, kwargs)
        if (func.module.relpath, func.qualname) in self.reg.formatting:
            # formatting-only helper (message text): dropped by the extraction, see DESIGN 2.1
            return VStr(self.path.fresh_str('fmt'))
        if self.reg.is_spec_module(func.module):
            contract = self.reg.lemmas[func.name][1]
        elif self.current_contract is not None and func.name in self.current_contract.use_abstract:
            contract = self.reg.abstract_contract_for(func)
            if contract is None:
                raise OutOfSubset('use_abstract(%s): no abstract contract found' % func.name)
        else:
            contract = self.reg.contract_for(func, self_cls)
        if contract is not None and not contract.inline and \
                not (self.current_target is func):
            return self.call_by_contract(func, contract, args, kwargs, fr, self_cls)
        if contract is not None and self.current_target is func and not contract.inline:
            # recursive call inside the function being verified: use its own contract
            return self.call_by_contract(func, contract, args, kwargs, fr, self_cls, recursive=True)
        if func.is_generator:
            raise OutOfSubset('call of generator %s' % func.ident)
        if self.call_depth > 12:
            raise OutOfSubset('inline depth exceeded at %s' % func.ident)
        if not self.reg.may_inline(func, self.current_contract):
            raise OutOfSubset('call to %s: no contract and not declared inline' % func.ident)
        self.reg.note_inlined(func)
        locals_ = self.bind_args(func, args, kwargs, fr)
        sub = Frame(func, locals_, func.module, func.cls)
        sub.self_cls = self_cls
        self.call_depth += 1
        try:
            return self.exec_body(func.node.body, sub)
        finally:
            self.call_depth -= 1

    current_target = None

    def exec_body(self, body, fr):
        try:
            self.exec_block(body, fr)
        except _Return as r:
            return r.value
        return VNone

    # -- spec functions ---------------------------------------------------------
    def call_spec_function(self, func, args, kwargs=None):
        kwargs = kwargs or {}
        if func.name == 'pow2' and len(args) == 1 and isinstance(args[0], VInt) and not is_int_const(args[0].t) \
                and not getattr(self, '_in_pow2', False):
            c = self.try_const(args[0].t)
            if c is not None:
                return VInt(1 << c if c >= 0 else 1)
        prim = self.reg.primitive(func.name)
        if prim is not None:
            r = prim(self, *args)
            if r is not None:
                return r
        fr0 = Frame(None, {}, func.module)
        fr0.spec = True
        locals_ = self.bind_args(func, args, kwargs, fr0)
        opaque_ = self.current_contract is not None and func.name in self.current_contract.opaque
        recursive = self.reg.is_recursive(func) or opaque_
        if not recursive:
            sub = Frame(func, locals_, func.module)
            sub.spec = True
            return self.spec_block(func.node.body, sub)
        # recursive: uninterpreted symbol + unfolding instance
        params = [p.arg for p in func.node.args.args]
        argvals = [locals_[p] for p in params]
        if argvals and all(isinstance(v, VInt) and is_int_const(v.t) and abs(v.t.as_long()) < 5000 for v in argvals) \
                and self.reg.return_kind(func) == 'Int':
            nat = self.reg.native_spec(func.name)
            if nat is not None:
                return VInt(nat(*[v.t.as_long() for v in argvals]))
        sorts = []
        terms = []
        if any(v is VNone for v in argvals):
            # ill-typed sub-term of a clause (guarded elsewhere in the clause): unspecified value
            rk = self.reg.return_kind(func)
            p_ = self.path
            return {'Int': lambda: VInt(p_.fresh_int('undef')), 'Bool': lambda: VBool(p_.fresh_bool('undef')),
                    'Seq': lambda: VSeq(p_.fresh_seq('undef'), 'list'), 'Str': lambda: VStr(p_.fresh_str('undef'))}[rk]()
        for v in argvals:
            if isinstance(v, VInt):
                sorts.append(IntS); terms.append(v.t)
            elif isinstance(v, VBool):
                sorts.append(BoolS); terms.append(v.t)
            elif isinstance(v, VSeq):
                sorts.append(SeqS); terms.append(v.t)
            elif isinstance(v, VStr):
                sorts.append(StrS); terms.append(v.t)
            elif isinstance(v, VOpaque):
                sorts.append(ValS); terms.append(v.t)
            else:
                raise OutOfSubset('recursive spec function argument %r' % (v,))
        ret = self.reg.return_kind(func)
        rsort = {'Int': IntS, 'Bool': BoolS, 'Seq': SeqS, 'Str': StrS}[ret]
        F = z3.Function(func.name, *(sorts + [rsort]))
        app = F(*terms)
        wrap = {'Int': VInt, 'Bool': VBool, 'Seq': lambda t: VSeq(t, 'list'), 'Str': VStr}[ret]
        key = (func.name, tuple(t.get_id() for t in terms))
        if key not in self.path.instances and not opaque_ and self.unfold_depth < self.reg.unfold_limit(func):
            self.path.instances[key] = app
            self.unfold_depth += 1
            try:
                sub = Frame(func, dict(locals_), func.module)
                sub.spec = True
                body = self.spec_block(func.node.body, sub)
            finally:
                self.unfold_depth -= 1
            bt = body.t if not isinstance(body, VBool) or ret == 'Bool' else body.t
            if ret == 'Int' and isinstance(body, VBool):
                bt = z3.If(body.t, 1, 0)
            self.path.assume(app == bt)
            for fact in self.reg.auto_facts(func, self, argvals, wrap(app)):
                self.path.assume(fact)
        elif (opaque_ or self.reg.unfold_limit(func) == 0) and key not in self.path.instances:
            # kept uninterpreted in this VC, but its proved side facts (<f>__facts) still hold
            self.path.instances[key] = app
            for fact in self.reg.auto_facts(func, self, argvals, wrap(app)):
                self.path.assume(fact)
        return wrap(app)

    def spec_block(self, stmts, fr):
        """pure evaluation of a statement list to its returned value (if -> ite)"""
        for i, st in enumerate(stmts):
            if isinstance(st, ast.Return):
                return self.ev(st.value, fr) if st.value is not None else VNone
            if isinstance(st, ast.Assign):
                v = self.ev(st.value, fr)
                for t in st.targets:
                    self.assign_target(t, v, fr)
                continue
            if isinstance(st, ast.AugAssign):
                cur = self.ev(st.target, fr)
                v = self.binop(st.op, cur, self.ev(st.value, fr), fr, st)
                self.assign_target(st.target, v, fr)
                continue
            if isinstance(st, ast.Expr):
                if isinstance(st.value, ast.Constant):
                    continue
                continue
            if isinstance(st, ast.Assert):
                continue
            if isinstance(st, ast.If):
                c = z3.simplify(self.truth(self.ev(st.test, fr)))
                rest = stmts[i + 1:]
                if z3.is_true(c):
                    return self.spec_block(st.body + rest, fr)
                if z3.is_false(c):
                    return self.spec_block(st.orelse + rest, fr)
                f1 = Frame(fr.func, dict(fr.locals), fr.module, fr.cls)
                f1.spec = True; f1.old = fr.old
                f2 = Frame(fr.func, dict(fr.locals), fr.module, fr.cls)
                f2.spec = True; f2.old = fr.old
                r1 = self.spec_block(st.body + rest, f1)
                r2 = self.spec_block(st.orelse + rest, f2)
                return ite_v(c, r1, r2)
            if isinstance(st, ast.Pass):
                continue
            raise OutOfSubset('statement %s in spec function' % type(st).__name__)
        return VNone

    # ----------------------------------------------------------------- statements
    def exec_block(self, stmts, fr):
        for st in stmts:
            self.exec_stmt(st, fr)

    def exec_stmt(self, st, fr):
        c = self.current_contract
        if c is not None and c.stmt_hints and fr.func is self.current_target:
            text = None
            text_loop = None
            if isinstance(st, ast.If):
                # '@ifK': the K-th if statement of the function in source order (robust against edits of the test)
                ifs_ = getattr(fr.func, '_if_order', None)
                if ifs_ is None:
                    nodes_ = sorted((n_ for n_ in ast.walk(fr.func.node) if isinstance(n_, ast.If)),
                                    key=lambda n_: (n_.lineno, n_.col_offset))
                    ifs_ = {id(n_): i_ for i_, n_ in enumerate(nodes_)}
                    fr.func._if_order = ifs_
                if id(st) in ifs_:
                    text_loop = '@if%d' % ifs_[id(st)]
            if c.ghost_updates:
                text = ast.unparse(st)
                if isinstance(st, (ast.While, ast.For)):
                    k_, _spec = self.loop_annotation(fr, st)
                    text_loop = '@loop%d' % k_
                for htext, sets in c.ghost_updates:
                    if htext == text or (text_loop is not None and htext == text_loop):
                        sf_ = self.spec_frame(fr)
                        vals_ = [(g_, self.ev(e_, sf_)) for g_, e_ in sets]
                        for g_, v_ in vals_:
                            fr.locals[g_] = v_
            for htext, uses, checks in c.stmt_hints:
                if text is None:
                    text = ast.unparse(st)
                if text_loop is None and isinstance(st, (ast.While, ast.For)):
                    k_, _spec = self.loop_annotation(fr, st)
                    text_loop = '@loop%d' % k_
                if text == htext or (text_loop is not None and text_loop == htext):
                    self.apply_uses(uses, fr)
                    for h2, _why, e_ in c.assumes_at:
                        if h2 == htext:
                            self.path.assume(self.truth(self.ev(e_, self.spec_frame(fr))))
                    # intermediate assertions (cut points) proved at this program point, just before the statement
                    sf = self.spec_frame(fr)
                    for i, chk in enumerate(checks):
                        self.prove(self.truth(self.ev(chk, sf)), 'assert', 'at(%s).check.%d' % (htext[:30], i), st.lineno)
        m = getattr(self, 'st_' + type(st).__name__, None)
        if m is None:
            raise OutOfSubset('statement %s' % type(st).__name__)
        return m(st, fr)

    def st_Pass(self, st, fr):
        pass

    def st_Expr(self, st, fr):
        if isinstance(st.value, ast.Constant):
            return
        if isinstance(st.value, (ast.Yield, ast.YieldFrom)):
            raise OutOfSubset('yield')
        self.ev(st.value, fr)

    def st_Return(self, st, fr):
        raise _Return(self.ev(st.value, fr) if st.value is not None else VNone)

    def st_Break(self, st, fr):
        raise _Break()

    def st_Continue(self, st, fr):
        raise _Continue()

    def st_Assign(self, st, fr):
        v = self.ev(st.value, fr)
        for t in st.targets:
            self.assign_target(t, v, fr)

    def st_AnnAssign(self, st, fr):
        if st.value is not None:
            self.assign_target(st.target, self.ev(st.value, fr), fr)

    def st_AugAssign(self, st, fr):
        tgt = st.target
        cur = self.ev(tgt, fr)
        rhs = self.ev(st.value, fr)
        if isinstance(cur, VSeq) and cur.mutable and isinstance(st.op, ast.Add) and isinstance(rhs, VSeq):
            cur.t = z3.Concat(cur.t, rhs.t)     # in-place +=
            return
        if isinstance(cur, VList) and isinstance(st.op, ast.Add) and isinstance(rhs, (VList, VTuple)):
            cur.items.extend(rhs.items)
            return
        if isinstance(cur, VObj) and isinstance(st.op, ast.Add):
            f = self.prog.find_method(cur.cls, '__iadd__')
            if f is not None:
                r = self.call_function(f, [cur, rhs], {}, fr, self_cls=cur.cls)
                if not isinstance(r, VObj) or r is not cur:
                    r = cur      # __iadd__ under contract: its own verification proves `result is self`
                self.assign_target(tgt, r, fr)
                return
        v = self.binop(st.op, cur, rhs, fr, st)
        self.assign_target(tgt, v, fr)

    def assign_target(self, t, v, fr):
        if isinstance(t, ast.Name):
            fr.locals[t.id] = v
            return
        if isinstance(t, (ast.Tuple, ast.List)):
            if isinstance(v, (VTuple, VList)):
                items = v.items
            elif isinstance(v, VSeq) and is_int_const(z3.simplify(z3.Length(v.t))):
                n = z3.simplify(z3.Length(v.t)).as_long()
                items = [VInt(z3.simplify(v.t[i])) for i in range(n)]
            else:
                raise OutOfSubset('unpacking of %r' % (v,))
            if len(items) != len(t.elts):
                self.raise_builtin('ValueError', 'unpack')
            for e, x in zip(t.elts, items):
                self.assign_target(e, x, fr)
            return
        if isinstance(t, ast.Attribute):
            base = self.ev(t.value, fr)
            if isinstance(base, VObj):
                decl = self.reg.declared_fields(base.cls).get(t.attr)
                if isinstance(decl, ast.Name) and decl.id == 'IdList' and isinstance(v, VList) and \
                        all(isinstance(x, VObj) and x.tag is not None for x in v.items):
                    v = VSeq(seq_of_terms([x.tag for x in v.items]), 'list')
                base.fields[t.attr] = v
                return
            raise OutOfSubset('attribute store on %r' % (base,))
        if isinstance(t, ast.Subscript):
            base = self.ev(t.value, fr)
            if isinstance(t.slice, ast.Slice):
                raise OutOfSubset('slice store')
            idx = self.ev(t.slice, fr)
            if isinstance(base, VSeq) and base.mutable:
                i = self.as_int(idx)
                n = z3.Length(base.t)
                ok = z3.And(i >= -n, i < n)
                if not self.path.branch(ok, 'storeidx'):
                    self.raise_builtin('IndexError', 'assignment index out of range')
                j = z3.simplify(z3.If(i < 0, i + n, i))
                x = self.as_int(v)
                if base.is_bytes:
                    if not self.path.branch(z3.And(x >= 0, x <= 255), 'byte'):
                        self.raise_builtin('ValueError', 'byte must be in range(0, 256)')
                base.t = z3.Concat(z3.SubSeq(base.t, 0, j), z3.Unit(x),
                                   z3.SubSeq(base.t, j + 1, n - j - 1))
                return
            if isinstance(base, VList):
                if isinstance(idx, VInt) and is_int_const(idx.t):
                    k = idx.t.as_long()
                    if -len(base.items) <= k < len(base.items):
                        base.items[k] = v
                        return
                    self.raise_builtin('IndexError', 'assignment index out of range')
                raise OutOfSubset('symbolic index store in list')
            if isinstance(base, VAbsList):
                return
            if isinstance(base, VDict):
                if isinstance(idx, VStr) and z3.is_string_value(idx.t):
                    base.d[idx.t.as_string()] = v
                    return
                if isinstance(idx, VInt) and is_int_const(idx.t):
                    base.d[idx.t.as_long()] = v
                    return
            raise OutOfSubset('subscript store on %r' % (base,))
        raise OutOfSubset('assignment target %s' % type(t).__name__)

    def st_If(self, st, fr):
        c = self.ev(st.test, fr)
        if self.path.branch(self.truth(c), 'if@%d' % st.lineno):
            self.exec_block(st.body, fr)
        else:
            self.exec_block(st.orelse, fr)

    def st_Assert(self, st, fr):
        c = self.ev(st.test, fr)
        if not self.path.branch(self.truth(c), 'assert'):
            self.raise_builtin('AssertionError')

    def st_Raise(self, st, fr):
        if st.exc is None:
            if fr.handling is None:
                raise OutOfSubset('bare raise outside handler')
            raise PyRaise(fr.handling)
        e = self.ev(st.exc, fr)
        if isinstance(e, VConst) and e.kind == 'class':
            e = self.instantiate(e.py, [], {}, fr)
        if not isinstance(e, VObj):
            raise OutOfSubset('raise of %r' % (e,))
        raise PyRaise(e)

    def exc_matches(self, exc, typ):
        cs = getattr(exc, 'cls_set', None)
        if cs and len(cs) > 1:
            ms = []
            for c in cs:
                probe = VObj(c, {})
                ms.append(self.exc_matches(probe, typ))
            if all(ms):
                return True
            if not any(ms):
                return False
            # the handler tells the classes apart: split the set
            k = self.path.choose(2, 'excsplit')
            keep = [c for c, m in zip(cs, ms) if m == (k == 0)]
            exc.cls_set = keep
            exc.cls = keep[0]
            return k == 0
        if isinstance(typ, VTuple):
            return any(self.exc_matches(exc, t) for t in typ.items)
        if isinstance(typ, VConst) and typ.kind == 'class':
            return self.prog.issubclass(exc.cls, typ.py)
        if isinstance(typ, VConst) and typ.kind == 'extern':
            nm = '.'.join(typ.py)
            if nm in BuiltinClass.HIER:
                return self.prog.issubclass(exc.cls, BuiltinClass(nm))
        raise OutOfSubset('except clause %r' % (typ,))

    def st_Try(self, st, fr):
        if st.finalbody:
            raise OutOfSubset('finally')
        try:
            self.exec_block(st.body, fr)
        except PyRaise as pr:
            exc = pr.exc
            for h in st.handlers:
                if h.type is None or self.exc_matches(exc, self.ev(h.type, fr)):
                    if h.name:
                        fr.locals[h.name] = exc
                    prev = fr.handling
                    fr.handling = exc
                    try:
                        self.exec_block(h.body, fr)
                    finally:
                        fr.handling = prev
                    return
            raise
        else:
            self.exec_block(st.orelse, fr)

    # ----------------------------------------------------------------- loops
    def loop_annotation(self, fr, st):
        func = fr.func
        k = fr.loop_ordinal_map.get(id(st)) if hasattr(fr, 'loop_ordinal_map') else None
        if k is None:
            loops = [n for n in ast.walk(func.node) if isinstance(n, (ast.While, ast.For))]
            loops.sort(key=lambda n: (n.lineno, n.col_offset))
            fr.loop_ordinal_map = {id(n): i for i, n in enumerate(loops)}
            k = fr.loop_ordinal_map[id(st)]
        return k, self.reg.loop_spec(func, k, getattr(fr, 'self_cls', None))

    def havoc_value(self, v, base):
        p = self.path
        if isinstance(v, VInt):
            return VInt(p.fresh_int(base))
        if isinstance(v, VBool):
            return VBool(p.fresh_bool(base))
        if isinstance(v, VSeq):
            return VSeq(p.fresh_seq(base), v.kind)
        if isinstance(v, VStr):
            return VStr(p.fresh_str(base))
        if isinstance(v, VOpaque):
            return VOpaque(p.fresh_val(base))
        if isinstance(v, VTuple):
            return VTuple([self.havoc_value(x, base) for x in v.items])
        if isinstance(v, VFloat):
            return VFloat(z3.Real(p.fresh_name(base)))
        if v is VNone or isinstance(v, (VConst, VBound, VAbsList)):
            return v
        if isinstance(v, (VList, VDict)):
            return VAbsList('dict' if isinstance(v, VDict) else 'list')
        if isinstance(v, VObj):
            self.havoc_object(v, base)
            return v
        raise OutOfSubset('havoc of %r' % (v,))

    def havoc_object(self, obj, base, fields=None):
        for k in list(obj.fields):
            if fields is not None and k not in fields:
                continue
            cur = obj.fields[k]
            if isinstance(cur, VLazy):
                cur = self.force(cur)
                obj.fields[k] = cur
            if isinstance(cur, VSeq) and cur.mutable:
                cur.t = self.path.fresh_seq(base + '.' + k)
            elif isinstance(cur, VObj):
                continue       # sub-objects are shared structure: not written by callee unless listed
            elif isinstance(cur, (VList, VDict, VMap)):
                continue
            else:
                obj.fields[k] = self.havoc_value(cur, base + '.' + k)

    def loop_targets(self, st):
        """names assigned and root names possibly mutated in the loop body"""
        assigned, mutated = set(), set()
        self._stored_fields = {}
        self._aug_names = set()
        body_nodes = list(st.body) + list(getattr(st, 'orelse', []))
        for b in body_nodes:
            for n in ast.walk(b):
                if isinstance(n, ast.Name) and isinstance(n.ctx, ast.Store):
                    assigned.add(n.id)
                elif isinstance(n, (ast.Attribute, ast.Subscript)) and isinstance(n.ctx, ast.Store):
                    r = n
                    first_attr = None
                    while isinstance(r, (ast.Attribute, ast.Subscript)):
                        if isinstance(r, ast.Attribute) and isinstance(r.value, ast.Name):
                            first_attr = r.attr
                        r = r.value
                    if isinstance(r, ast.Name):
                        mutated.add(r.id)
                        if first_attr:
                            self._stored_fields.setdefault(r.id, set()).add(first_attr)
                elif isinstance(n, ast.Call):
                    f = n.func
                    written = self.reg.callee_written_args(n)     # None: unknown callee -> conservative
                    if isinstance(f, ast.Attribute):
                        r = f.value
                        while isinstance(r, (ast.Attribute, ast.Subscript)):
                            r = r.value
                        if isinstance(r, ast.Name) and (written is None or 'self' in written):
                            mutated.add(r.id)
                    for ai, a in enumerate(list(n.args) + [k.value for k in n.keywords]):
                        if written is not None and ai not in written and \
                                not (ai >= len(n.args) and n.keywords[ai - len(n.args)].arg in written):
                            continue
                        r = a
                        while isinstance(r, (ast.Attribute, ast.Subscript, ast.Starred)):
                            r = r.value
                        if isinstance(r, ast.Name):
                            mutated.add(r.id)
                elif isinstance(n, ast.AugAssign):
                    r = n.target
                    while isinstance(r, (ast.Attribute, ast.Subscript)):
                        r = r.value
                    if isinstance(r, ast.Name):
                        mutated.add(r.id)
                        if isinstance(n.target, ast.Name):
                            self._aug_names.add(r.id)
        if isinstance(st, ast.For):
            for n in ast.walk(st.target):
                if isinstance(n, ast.Name):
                    assigned.add(n.id)
        c_ = self.current_contract
        if c_ is not None and c_.ghost_updates:
            texts = set()
            for b in body_nodes:
                for n in ast.walk(b):
                    if isinstance(n, ast.stmt):
                        texts.add(ast.unparse(n))
            for htext, sets in c_.ghost_updates:
                if htext in texts:
                    for g_, _e in sets:
                        assigned.add(g_)
        return assigned, mutated

    def havoc_loop_state(self, st, fr, tag):
        assigned, mutated = self.loop_targets(st)
        for name in sorted(assigned):
            if name in fr.locals:
                v = fr.locals[name]
                if isinstance(v, VSeq) and v.mutable:
                    fr.locals[name] = VSeq(self.path.fresh_seq('%s.%s' % (tag, name)), v.kind)
                elif isinstance(v, (VList, VDict, VAbsList)):
                    fr.locals[name] = VAbsList('dict' if isinstance(v, VDict) or getattr(v, 'kind', '') == 'dict' else 'list')
                elif isinstance(v, VObj) and name in self._aug_names and not any(
                        isinstance(n_, ast.Assign) and any(isinstance(t_, ast.Name) and t_.id == name for t_ in n_.targets)
                        for b_ in st.body for n_ in ast.walk(b_)):
                    # only `x += y` on an object with __iadd__: the same object, mutated in place
                    flds = set(self.reg.mutable_fields(v.cls))
                    self.havoc_object(v, '%s.%s' % (tag, name), flds)
                elif isinstance(v, (VObj, VMap)):
                    # rebound inside the loop: its value at the loop head is unknown; leave it undefined so that a read
                    # before the re-assignment is reported instead of silently using a stale object
                    del fr.locals[name]
                else:
                    fr.locals[name] = self.havoc_value(v, '%s.%s' % (tag, name))
        for name in sorted(mutated - assigned):
            if name in fr.locals:
                v = fr.locals[name]
                if isinstance(v, VSeq) and v.mutable:
                    v.t = self.path.fresh_seq('%s.%s' % (tag, name))
                elif isinstance(v, VObj):
                    flds = set(self.reg.mutable_fields(v.cls)) | self._stored_fields.get(name, set())
                    self.havoc_object(v, '%s.%s' % (tag, name), flds)
                elif isinstance(v, (VList, VDict)):
                    fr.locals[name] = VAbsList('dict' if isinstance(v, VDict) else 'list')
        return assigned | mutated

    def spec_frame(self, fr):
        sf = Frame(fr.func, fr.locals, fr.module, fr.cls)
        sf.spec = True
        sf.old = fr.old
        sf.target_module = fr.module
        sf.head = getattr(fr, 'head', None)
        sf.heads = getattr(fr, 'heads', {})
        sf.entries = getattr(fr, 'entries', {})
        return sf

    def check_invariants(self, spec, fr, kind, name, st):
        sf = self.spec_frame(fr)
        for i, inv in enumerate(spec.invariants if spec else []):
            t = self.truth(self.ev(inv, sf))
            self.prove(t, kind, '%s.inv%d.%s' % (name, i, kind), st.lineno)

    def assume_invariants(self, spec, fr):
        sf = self.spec_frame(fr)
        for inv in (spec.invariants if spec else []):
            self.path.assume(self.truth(self.ev(inv, sf)))

    def apply_uses(self, uses, fr):
        sf = self.spec_frame(fr)
        for u in uses:
            self.use_lemma(u, sf)

    def st_While(self, st, fr):
        k, spec = self.loop_annotation(fr, st)
        name = 'loop%d' % k
        if not hasattr(fr, 'entries'):
            fr.entries = {}
        fr.entries[k] = self.snapshot_frame(self.spec_frame(fr))
        self.check_invariants(spec, fr, 'init', name, st)
        self.havoc_loop_state(st, fr, name)
        self.assume_invariants(spec, fr)
        if spec:
            self.apply_uses(spec.uses, fr)
        fr.head = self.snapshot_frame(self.spec_frame(fr))
        if not hasattr(fr, 'heads'):
            fr.heads = {}
        fr.heads[k] = fr.head
        c = self.ev(st.test, fr)
        if not self.path.branch(self.truth(c), 'while@%d' % st.lineno):
            self.exec_block(st.orelse, fr)
            return
        sf = self.spec_frame(fr)
        m0 = None
        if spec and spec.decreases is not None:
            m0 = self.as_int(self.ev(spec.decreases, sf))
        elif self.reg.want_termination:
            self.prove(z3.BoolVal(False), 'decreases', '%s.decreases.missing' % name, st.lineno)
        try:
            self.exec_block(st.body, fr)
        except _Break:
            return
        except _Continue:
            pass
        if spec:
            self.apply_uses(spec.uses_step, fr)
        self.check_invariants(spec, fr, 'keep', name, st)
        if m0 is not None:
            m1 = self.as_int(self.ev(spec.decreases, self.spec_frame(fr)))
            self.prove(z3.And(m0 >= 0, m1 < m0), 'decreases', '%s.decreases' % name, st.lineno)
        raise PathEnd()

    def st_For(self, st, fr):
        it = self.ev(st.iter, fr)
        if isinstance(it, VAbsList) and isinstance(st.iter, ast.Name) and self.current_contract is not None \
                and st.iter.id in self.current_contract.local_types and fr.func is self.current_target:
            # a list built element by element in an earlier loop: its declared element type (sidecar local())
            it = self.reg.fresh_of_type(self, self.current_contract.local_types[st.iter.id], st.iter.id, fr.module)
        # concrete-length iterables: unroll
        if isinstance(it, (VTuple, VList)):
            for x in list(it.items):
                self.assign_target(st.target, x, fr)
                try:
                    self.exec_block(st.body, fr)
                except _Break:
                    return
                except _Continue:
                    continue
            self.exec_block(st.orelse, fr)
            return
        if isinstance(it, VDict):
            for key in list(it.d):
                self.assign_target(st.target, VInt(key) if isinstance(key, int) else VStr(key), fr)
                try:
                    self.exec_block(st.body, fr)
                except _Break:
                    return
                except _Continue:
                    continue
            self.exec_block(st.orelse, fr)
            return
        k, spec = self.loop_annotation(fr, st)
        name = 'loop%d' % k
        if isinstance(it, VConst) and it.kind == 'range':
            lo, hi = it.py
            elem = lambda i: VInt(i)
        elif isinstance(it, VSeq):
            seq_t = it.t
            lo, hi = z3.IntVal(0), z3.Length(seq_t)
            isb = it.is_bytes

            def elem(i):
                e = seq_t[i]
                if isb:
                    self.path.assume(z3.And(e >= 0, e <= 255))
                return VInt(e)
        elif isinstance(it, VStr):
            str_t = it.t
            lo, hi = z3.IntVal(0), z3.Length(str_t)
            elem = lambda i: VStr(z3.SubString(str_t, i, 1))
        elif isinstance(it, VConst) and it.kind == 'objseq':
            oseq = it.py
            lo, hi = z3.IntVal(0), oseq.length
            elem = lambda i: oseq.at(self, i)
        else:
            raise OutOfSubset('for over %r' % (it,))
        idx_name = '_i%d' % k
        fr.locals[idx_name] = VInt(lo)
        if not hasattr(fr, 'entries'):
            fr.entries = {}
        fr.entries[k] = self.snapshot_frame(self.spec_frame(fr))
        self.check_invariants(spec, fr, 'init', name, st)
        self.havoc_loop_state(st, fr, name)
        i = self.path.fresh_int(name + '.idx')
        fr.locals[idx_name] = VInt(i)
        self.path.assume(z3.And(i >= lo, z3.Or(i <= hi, i == lo)))
        self.assume_invariants(spec, fr)
        if spec:
            self.apply_uses(spec.uses, fr)
        fr.head = self.snapshot_frame(self.spec_frame(fr))
        if not hasattr(fr, 'heads'):
            fr.heads = {}
        fr.heads[k] = fr.head
        if not self.path.branch(i < hi, 'for@%d' % st.lineno):
            self.exec_block(st.orelse, fr)
            return
        self.assign_target(st.target, elem(i), fr)
        try:
            self.exec_block(st.body, fr)
        except _Break:
            return
        except _Continue:
            pass
        fr.locals[idx_name] = VInt(i + 1)
        if spec:
            self.apply_uses(spec.uses_step, fr)
        self.check_invariants(spec, fr, 'keep', name, st)
        raise PathEnd()

    # ----------------------------------------------------------------- obligations
    def alloc_obligation(self, size, fr, node, what):
        """C08: in the decoders (contracts tagged C08) a buffer whose size is a computed number must be bounded by the
        size of the input"""
        c = self.current_contract
        if fr.spec or c is None or 'C08' not in (c.props or ()) or fr.func is not self.current_target:
            return
        size = z3.simplify(size)
        if is_int_const(size):
            return
        self.prove(size <= self.alloc_bound(fr), 'alloc', 'alloc.bounded(%s)' % what, getattr(node, 'lineno', 0))

    def alloc_bound(self, fr):
        """the input-size measure allocations are compared with: alloc_bound(expr) of the contract, else the total
        number of bits of a `decoder` parameter, else 8 * len(data) -- plus a constant"""
        c = self.current_contract
        sf = self.spec_frame(fr)
        if c is not None and getattr(c, 'alloc_bound', None) is not None:
            return self.as_int(self.ev(c.alloc_bound, sf))
        for cand in ('decoder.total_number_of_bits', 'self.total_number_of_bits', '8 * len(data)', '8 * len(encoded)'):
            try:
                return self.as_int(self.ev(ast.parse(cand, mode='eval').body, sf)) + 64
            except Exception:
                continue
        raise OutOfSubset('allocation of symbolic size without an input-size measure (alloc_bound)')

    def prove(self, goal, kind, name, line):
        if isinstance(goal, bool):
            goal = z3.BoolVal(goal)
        g = z3.simplify(goal)
        if z3.is_true(g):
            self.path.trivial = getattr(self.path, 'trivial', 0) + 1
            ob = Obligation(name, kind, [], g, line, tuple(self.path.decisions), None)
            ob.verdict = 'proved'
            ob.backend = 'simplifier'
            self.path.obligations.append(ob)
            return
        ob = Obligation(name, kind, list(self.path.pc), goal, line, tuple(self.path.decisions), None)
        ob.inputs_v = getattr(self, 'inputs_v', None)
        self.path.obligations.append(ob)
        # continue under the assumption that the goal holds (assert; assume)
        self.path.assume(goal)

    # ----------------------------------------------------------------- contracts at call sites
    def call_by_contract(self, func, contract, args, kwargs, fr, self_cls, recursive=False):
        locals_ = self.bind_args(func, args, kwargs, fr)
        # the contract's own parameter names (an abstract base may declare (self, *args) or other names): positional
        for name_, v_ in zip(contract.param_order, args):
            locals_.setdefault(name_, v_)
        if func.node.args.vararg is not None:
            for name_, v_ in zip(contract.param_order, args):
                locals_[name_] = v_
        cf = Frame(func, dict(locals_), self.reg.spec_module_for(contract), func.cls)
        # ghost variables of the callee are existentially quantified at a call site: fresh unknown integers
        for g_ in getattr(contract, 'ghost_init', {}) or {}:
            cf.locals.setdefault(g_, VInt(self.path.fresh_int('ghost.' + g_)))
        cf.spec = True
        cf.target_module = func.module
        cf.self_cls = self_cls
        # pre-state snapshot for old()
        cf.old = self.snapshot_frame(cf)
        cname = func.qualname
        # parameter annotations that carry a range (Nat, Byte) are preconditions: checked at every call site
        for pname, ann in contract.params.items():
            if isinstance(ann, ast.Name) and ann.id in ('Nat', 'Byte') and pname in cf.locals:
                v = self.force(cf.locals[pname])
                if self.is_intlike(v):
                    t = self.as_int(v)
                    g = t >= 0 if ann.id == 'Nat' else z3.And(t >= 0, t <= 255)
                    self.prove(g, 'pre@call', 'pre@%s.%s:%s' % (cname, pname, ann.id), 0)
        for i, r in enumerate(contract.requires):
            t = self.truth(self.ev(r, cf))
            self.prove(t, 'pre@call', 'pre@%s.%d' % (cname, i), getattr(r, 'lineno', 0))
        if recursive and contract.decreases is not None:
            m_callee = self.as_int(self.ev(contract.decreases, cf))
            m_caller = self.entry_measure
            self.prove(z3.And(m_callee >= 0, m_callee < m_caller), 'decreases',
                       'rec.decreases@%s' % cname, 0)
        # havoc what the callee assigns
        for a in contract.assigns:
            tgt = self.ev(a, cf)
            if isinstance(tgt, VSeq) and tgt.mutable:
                tgt.t = self.path.fresh_seq('call.%s' % cname)
            elif isinstance(tgt, VObj):
                self.havoc_object(tgt, 'call.%s' % cname, self.reg.mutable_fields(tgt.cls))
            elif isinstance(tgt, (VDict, VList)):
                # a result container handed to the callee: its contents are no longer tracked
                repl = VAbsList('dict' if isinstance(tgt, VDict) else 'list')
                for nm, val in list(fr.locals.items()):
                    if val is tgt:
                        fr.locals[nm] = repl
            elif isinstance(tgt, VAbsList) or tgt is VNone:
                pass
            else:
                raise OutOfSubset('assigns target %r' % (tgt,))
        # outcome: normal or one of the declared exceptions; unconditional clauses without ensures are grouped
        # into a single outcome carrying the set of possible classes (split only where a handler tells them apart)
        plain = [i for i, rc in enumerate(contract.raises) if rc.when is None and not rc.ensures]
        outcomes = ['return'] + [i for i in range(len(contract.raises)) if i not in plain]
        if plain:
            outcomes.append(('group', plain))
        if contract.never_returns:
            outcomes = outcomes[1:]
        which = self.path.choose(len(outcomes), 'outcome@%s' % cname)
        oc = outcomes[which]
        if isinstance(oc, tuple):
            mod = self.reg.spec_module_for(contract)
            classes = [self.resolve_exc_class(contract.raises[i].exc, mod) for i in oc[1]]
            if not self.path.feasible(z3.BoolVal(True)):
                raise PathEnd()
            exc = VObj(classes[0], {})
            exc.cls_set = classes
            self.init_abstract_exception(exc, contract.raises[oc[1][0]], cf)
            raise PyRaise(exc)
        if oc == 'return':
            for rc in contract.raises:
                if rc.iff and rc.when is not None:
                    self.path.assume(z3.Not(self.truth(self.ev(rc.when, cf.old_spec()))))
            res = self.fresh_result(contract, func, cf)
            cf.locals['result'] = res
            forget = self.current_contract.forget if self.current_contract is not None else ()
            for e in contract.ensures:
                if forget and any(isinstance(n_, ast.Name) and n_.id in forget for n_ in ast.walk(e)):
                    continue            # the caller's proof does not need this fact (assuming less is sound)
                self.path.assume(self.truth(self.ev(e, cf)))
            # objects the callee may write satisfy their class invariant again when it returns (proved at its exits)
            for a in contract.assigns:
                tgt = self.ev(a, cf)
                if isinstance(tgt, VObj) and isinstance(tgt.cls, ClassInfo):
                    ifr = Frame(None, {'self': tgt}, tgt.cls.module)
                    ifr.spec = True
                    ifr.old = ifr
                    for inv in self.reg.class_invariants(tgt.cls):
                        if forget and any(isinstance(n_, ast.Name) and n_.id in forget for n_ in ast.walk(inv)):
                            continue
                        self.path.assume(self.truth(self.ev(inv, ifr)))
            if not self.path.feasible(z3.BoolVal(True)):
                raise PathEnd()
            return res
        rc = contract.raises[oc]
        if rc.when is not None:
            self.path.assume(self.truth(self.ev(rc.when, cf.old_spec())))
        if not self.path.feasible(z3.BoolVal(True)):
            raise PathEnd()
        cls = self.resolve_exc_class(rc.exc, self.reg.spec_module_for(contract))
        exc = VObj(cls, {})
        self.init_abstract_exception(exc, rc, cf)
        cf.locals['exc'] = exc
        for e in rc.ensures:
            self.path.assume(self.truth(self.ev(e, cf)))
        raise PyRaise(exc)

    def init_abstract_exception(self, exc, rc, cf):
        decl = self.reg.declared_fields(exc.cls)
        for k, ty in decl.items():
            exc.fields[k] = self.reg.fresh_of_type(self, ty, 'exc.' + k)

    def resolve_exc_class(self, name, module):
        r = self.prog.resolve(module, name)
        if r and r[0] == 'class':
            return r[1]
        for rel in ('asn1tools/codecs/ber.py', 'asn1tools/codecs/per.py', 'asn1tools/codecs/__init__.py'):
            try:
                r = self.prog.resolve(self.prog.module_by_relpath(rel), name)
            except KeyError:
                r = None
            if r and r[0] == 'class':
                return r[1]
        for m in self.prog.modules.values():
            if name in m.classes:
                return m.classes[name]
        if name in BuiltinClass.HIER:
            return BuiltinClass(name)
        raise OutOfSubset('unknown exception class %s' % name)

    def fresh_result(self, contract, func, cf):
        ty = contract.returns
        if ty is None:
            for e in contract.ensures:
                if any(isinstance(n, ast.Name) and n.id == 'result' for n in ast.walk(e)):
                    raise OutOfSubset('contract of %s is used at a call site but has no return annotation' % func.ident)
            return VNone
        return self.reg.fresh_of_type(self, ty, 'ret.' + func.name)

    def snapshot_value(self, v, memo):
        if id(v) in memo:
            return memo[id(v)]
        if isinstance(v, VLazy):
            if v.cell['value'] is not None and not v.snapshot:
                return self.snapshot_value(v.cell['value'], memo)
            return VLazy(v.cell, snapshot=True)
        if isinstance(v, VSeq) and v.mutable:
            r = VSeq(v.t, v.kind)
        elif isinstance(v, VObj):
            r = VObj(v.cls, {}, v.tag)
            memo[id(v)] = r
            for k, x in v.fields.items():
                r.fields[k] = self.snapshot_value(x, memo)
        elif isinstance(v, VList):
            r = VList([self.snapshot_value(x, memo) for x in v.items])
        elif isinstance(v, VTuple):
            r = VTuple([self.snapshot_value(x, memo) for x in v.items])
        elif isinstance(v, VDict):
            r = VDict({k: self.snapshot_value(x, memo) for k, x in v.d.items()})
        else:
            r = v
        memo[id(v)] = r
        return r

    def snapshot_frame(self, fr):
        memo = {}
        of = Frame(fr.func, {k: self.snapshot_value(v, memo) for k, v in fr.locals.items()},
                   fr.module, fr.cls)
        of.spec = True
        of.target_module = getattr(fr, 'target_module', None)
        of.old = of
        return of

    def use_lemma(self, call_node, sf):
        """use(L(args)): assume requires(L) => ensures(L) for a lemma proved separately"""
        if not (isinstance(call_node, ast.Call) and isinstance(call_node.func, ast.Name)):
            raise OutOfSubset('use() needs a lemma call')
        lname = call_node.func.id
        lem = self.reg.lemmas.get(lname)
        if lem is None:
            raise OutOfSubset('unknown lemma %s' % lname)
        args = [self.ev(a, sf) for a in call_node.args]
        func, contract = lem
        lf = Frame(func, {}, func.module)
        lf.spec = True
        lf.locals = self.bind_args(func, args, {}, lf)
        lf.old = lf
        pre = [self.truth(self.ev(r, lf)) for r in contract.requires]
        post = [self.truth(self.ev(e, lf)) for e in contract.ensures]
        self.path.assume(z3.Implies(z3.And(pre) if pre else z3.BoolVal(True),
                                    z3.And(post) if post else z3.BoolVal(True)))
        self.reg.note_lemma_use(lname)


def _old_spec(self):
    return self.old if self.old is not None else self


Frame.old_spec = _old_spec
