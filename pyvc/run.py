import sys, os, time
from .verify import Verifier

def main():
    import argparse
    ap = argparse.ArgumentParser()
    ap.add_argument('--repo', default='/repo')
    ap.add_argument('--verif', default=os.path.dirname(os.path.dirname(os.path.abspath(__file__))))
    ap.add_argument('--only', default=None)
    ap.add_argument('--timeout', type=int, default=10000)
    ap.add_argument('-v', action='store_true')
    a = ap.parse_args()
    V = Verifier(a.repo, a.verif)
    for c in V.all_contracts():
        if a.only and a.only not in c.ident:
            continue
        r = V.verify(c, timeout_ms=a.timeout)
        print('%-70s paths=%d obl=%d %s %.2fs %s' % (c.ident, r.paths, len(r.obligations), r.summary(), r.time, r.error or ''))
        print('   outcomes', r.outcomes)
        for o in r.obligations:
            if o.verdict != 'proved' or a.v:
                print('   ', o.verdict, o.name, 'line', o.line, 'path', o.path_id, '%.2fs' % o.time, o.reason)
                if o.model is not None:
                    print('      model:', str(o.model)[:600])

if __name__ == '__main__':
    main()
