import sys, os, time
import multiprocessing as mp
from .verify import Verifier

_V = None
_ARGS = None


def work(ident):
    try:
        return work_(ident)
    except Exception:
        import traceback
        return '%-70s paths=0 obl=0 {} 0.00s CRASH %s' % (ident, traceback.format_exc()[-400:].replace('\n', ' | '))


def work_(ident):
    c = [c for c in _V.all_contracts() if c.ident == ident][0]
    r = _V.verify(c, timeout_ms=_ARGS.timeout)
    lines = ['%-70s paths=%d obl=%d %s %.2fs %s' % (c.ident, r.paths, len(r.obligations), r.summary(), r.time, r.error or ''),
             '   outcomes %s' % r.outcomes]
    for o in r.obligations:
        if o.verdict != 'proved' or _ARGS.v:
            lines.append('    %s %s line %s path %s %.2fs %s' % (o.verdict, o.name, o.line, o.path_id, o.time, o.reason))
            if o.model is not None and _ARGS.v:
                lines.append('      model: ' + str(o.model)[:600])
    return '\n'.join(lines)


def main():
    global _V, _ARGS
    import argparse
    ap = argparse.ArgumentParser()
    ap.add_argument('--repo', default='/repo')
    ap.add_argument('--verif', default=os.path.dirname(os.path.dirname(os.path.abspath(__file__))))
    ap.add_argument('--only', default=None)
    ap.add_argument('--timeout', type=int, default=10000)
    ap.add_argument('-j', type=int, default=12)
    ap.add_argument('-v', action='store_true')
    _ARGS = ap.parse_args()
    _V = Verifier(_ARGS.repo, _ARGS.verif)
    idents = [c.ident for c in _V.all_contracts() if not _ARGS.only or _ARGS.only in c.ident]
    if len(idents) <= 1 or _ARGS.j <= 1:
        for i in idents:
            print(work(i), flush=True)
        return
    with mp.Pool(min(_ARGS.j, len(idents))) as pool:
        for out in pool.imap_unordered(work, idents, chunksize=1):
            print(out, flush=True)


if __name__ == '__main__':
    main()
