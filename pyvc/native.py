"""Native (CPython) evaluation of the sidecar contracts against the real code.

Used for (a) replaying solver counterexamples, (b) the CPython cross-check / bounded
stand-in: the real function is called on generated inputs and the same contract clauses
that the solver proves are evaluated as ordinary Python.  Runs under /venv/bin/python
(needs the repository importable), imports no z3.
"""
import ast
import copy
import importlib
import importlib.util
import json
import os
import random
import signal
import sys
import traceback

VERIF_ROOT = os.path.dirname(os.path.dirname(os.path.abspath(__file__)))


class ContractViolation(Exception):
    pass


_SPEC_ENV = None


def load_spec_env():
    global _SPEC_ENV
    if _SPEC_ENV is None:
        _SPEC_ENV = _load_spec_env()
    return _SPEC_ENV


def _load_spec_env():
    if VERIF_ROOT not in sys.path:
        sys.path.insert(0, VERIF_ROOT)
    env = {}
    spec_dir = os.path.join(VERIF_ROOT, 'spec')
    for fn in sorted(os.listdir(spec_dir)):
        if fn.endswith('.py') and fn != '__init__.py':
            m = importlib.import_module('spec.' + fn[:-3])
            for k, v in vars(m).items():
                if not k.startswith('__'):
                    env[k] = v
    return env


FIXUPS = {}


class NContract:
    def __init__(self):
        self.requires = []
        self.ensures = []
        self.raises = []       # (excname, when, iff, ensures)
        self.params = {}
        self.param_order = []
        self.ghosts = {}
        self.for_class = None
        self.label = None
        self.props = []
        self.native = {}
        self.known = []
        self.refines = []


def parse_sidecars(directory):
    """returns {ident: NContract-with-ast}, fields {(rel, cls): {name: ann}} , invariants"""
    out = {}
    fields = {}
    invariants = {}
    for fn in sorted(os.listdir(directory)):
        if not fn.endswith('.py') or fn.startswith('_'):
            continue
        tree = ast.parse(open(os.path.join(directory, fn)).read())
        default_file = None
        for node in tree.body:
            if isinstance(node, ast.Assign) and getattr(node.targets[0], 'id', None) == 'FILE':
                default_file = ast.literal_eval(node.value)
            elif isinstance(node, ast.Expr) and isinstance(node.value, ast.Call) and \
                    isinstance(node.value.func, ast.Name) and node.value.func.id in ('fields', 'invariant', 'fixup'):
                call = node.value
                vals = []
                for a in call.args:
                    try:
                        vals.append(ast.literal_eval(a))
                    except Exception:
                        break
                if len(vals) >= 2 and isinstance(vals[0], str) and vals[0].endswith('.py'):
                    rel, cname, skip = vals[0], vals[1], 2
                else:
                    rel, cname, skip = default_file, vals[0], 1
                if call.func.id == 'fixup':
                    FIXUPS.setdefault((rel, cname), []).append(vals[skip])
                elif call.func.id == 'fields':
                    d = fields.setdefault((rel, cname), {})
                    for k in call.keywords:
                        d[k.arg] = k.value
                else:
                    invariants.setdefault((rel, cname), []).extend(call.args[skip:])
            elif isinstance(node, ast.FunctionDef):
                for dec in node.decorator_list:
                    if isinstance(dec, ast.Call) and getattr(dec.func, 'id', None) == 'contract':
                        args = [ast.literal_eval(a) for a in dec.args]
                        rel, qual = (default_file, args[0]) if len(args) == 1 else args
                        c = NContract()
                        c.relpath, c.qualname = rel, qual
                        for k in dec.keywords:
                            v = ast.literal_eval(k.value)
                            setattr(c, k.arg, v)
                        for p in node.args.args:
                            c.param_order.append(p.arg)
                            c.params[p.arg] = p.annotation
                        for st in node.body:
                            if not (isinstance(st, ast.Expr) and isinstance(st.value, ast.Call)
                                    and isinstance(st.value.func, ast.Name)):
                                continue
                            call = st.value
                            n = call.func.id
                            if n == 'requires':
                                c.requires.extend(call.args)
                            elif n == 'ensures':
                                c.ensures.extend(call.args)
                            elif n in ('raises', 'raises_iff'):
                                exc = call.args[0].id if isinstance(call.args[0], ast.Name) else ast.literal_eval(call.args[0])
                                when, ens = None, []
                                for k in call.keywords:
                                    if k.arg == 'when':
                                        when = k.value
                                    elif k.arg == 'ensures':
                                        ens = k.value.elts if isinstance(k.value, (ast.List, ast.Tuple)) else [k.value]
                                if n == 'raises_iff':
                                    when = call.args[1]
                                c.raises.append((exc, when, n == 'raises_iff', ens))
                            elif n == 'ghost':
                                for k in call.keywords:
                                    c.ghosts[k.arg] = k.value
                            elif n == 'native':
                                for k in call.keywords:
                                    c.native[k.arg] = k.value
                                    if k.arg == 'domain':
                                        # native(domain=expr): restricts the *generated* inputs of the bounded cross-check
                                        # to well-typed ones (never used by the proof side)
                                        c.requires.append(k.value)
                            elif n == 'known':
                                c.known.append((ast.literal_eval(call.args[0]), call.args[1]))
                            elif n == 'refines':
                                c.refines.append(ast.literal_eval(call.args[0]))
                            elif n == 'use_abstract':
                                c.uses_abstract = True
                        ident = rel + '::' + qual
                        if c.for_class:
                            ident += '@' + c.for_class
                        if c.label:
                            ident += '#' + c.label
                        c.ident = ident
                        out[ident] = c
    for c in list(out.values()):
        for ref in c.refines:
            rel, qual = (ref.split('::') if '::' in ref else (c.relpath, ref))
            base = out.get(rel + '::' + qual)
            if base is None:
                continue
            c.requires = list(base.requires) + c.requires
            c.ensures = list(base.ensures) + c.ensures
            c.raises = c.raises + list(base.raises)
            for k, v in base.params.items():
                if c.params.get(k) is None:
                    c.params[k] = v
    return out, fields, invariants


class OldRewriter(ast.NodeTransformer):
    """old(e) -> placeholder name; e is compiled separately and evaluated in the pre-state"""

    def __init__(self):
        self.olds = []

    def visit_Call(self, node):
        if isinstance(node.func, ast.Name) and node.func.id == 'implies' and len(node.args) == 2:
            # lazy implication: the consequent is only evaluated when the antecedent holds
            a = self.visit(node.args[0])
            b = self.visit(node.args[1])
            return ast.copy_location(ast.BoolOp(ast.Or(), [ast.UnaryOp(ast.Not(), a), b]), node)
        if isinstance(node.func, ast.Name) and node.func.id == 'old':
            name = '__old%d' % len(self.olds)
            self.olds.append((name, compile(ast.Expression(node.args[0]), '<old>', 'eval')))
            return ast.copy_location(ast.Name(name, ast.Load()), node)
        return self.generic_visit(node)


_CODE = {}


_GHOST = None


def ghost_names():
    """spec functions marked @uninterpreted: ghost predicates with no executable meaning"""
    global _GHOST
    if _GHOST is None:
        _GHOST = set()
        spec_dir = os.path.join(VERIF_ROOT, 'spec')
        for fn in os.listdir(spec_dir):
            if fn.endswith('.py'):
                tree = ast.parse(open(os.path.join(spec_dir, fn)).read())
                for n in tree.body:
                    if isinstance(n, ast.FunctionDef) and any(
                            isinstance(d, ast.Name) and d.id == 'ghost' for d in n.decorator_list):
                        _GHOST.add(n.name)
    return _GHOST


def mentions_ghost(expr):
    g = ghost_names()
    return any(isinstance(n, ast.Name) and n.id in g for n in ast.walk(expr))


def ev(expr, genv, env, pre_env=None):
    if mentions_ghost(expr):
        return True               # clause about a ghost predicate: not executable, skipped natively
    key = id(expr)
    ent = _CODE.get(key)
    if ent is None:
        rw = OldRewriter()
        e2 = rw.visit(copy.deepcopy(expr))
        ast.fix_missing_locations(e2)
        ent = (compile(ast.Expression(e2), '<contract>', 'eval'), rw.olds, expr)
        _CODE[key] = ent
    code, olds, _ = ent
    if olds:
        env = dict(env)
        for name, c in olds:
            env[name] = eval(c, genv, pre_env if pre_env is not None else env)
    return eval(code, genv, env)


def forall(f, lo=None, hi=None):
    return all(f(i) for i in range(lo, hi))


def exists(f, lo=None, hi=None):
    return any(f(i) for i in range(lo, hi))


class Timeout(Exception):
    pass


def _alarm(signum, frame):
    raise Timeout()


def target_module(repo_root, relpath):
    if repo_root not in sys.path:
        sys.path.insert(0, repo_root)
    modname = relpath[:-3].replace('/', '.')
    if modname.endswith('.__init__'):
        modname = modname[:-9]
    return importlib.import_module(modname)


def resolve_target(mod, qualname):
    obj = mod
    for part in qualname.split('.'):
        obj = getattr(obj, part)
    return obj


def check_call(contract, mod, genv, args, ghosts=None, time_limit=5, ignore_known=False):
    """Run the real function on `args` (dict name->value, incl. self) and evaluate the contract.
    returns (status, detail); status in ok | skipped | violated"""
    fn = resolve_target(mod, contract.qualname)
    env = dict(args)
    env.update(ghosts or {})
    g = dict(genv)
    for modname in ('asn1tools.codecs', 'asn1tools.codecs.per', 'asn1tools.codecs.ber'):
        try:
            g.update(vars(importlib.import_module(modname)))     # clauses inherited through refines()
        except Exception:
            pass
    g.update(vars(mod))
    g.update(load_spec_env())
    g['forall'] = forall
    g['exists'] = exists
    try:
        for r in contract.requires:
            if not ev(r, g, env):
                return 'skipped', 'requires false'
    except Exception as e:
        return 'skipped', 'requires raised %r' % (e,)
    if not ignore_known:
        for kid, region in contract.known:
            try:
                if ev(region, g, env):
                    return 'skipped', 'inside the region of known finding %s' % kid
            except Exception:
                pass
    pre_env = copy.deepcopy(env)
    order = [p for p in contract.param_order if p in args]
    import inspect
    sig_params = list(inspect.signature(fn).parameters)
    call_args = [args[p] for p in sig_params if p in args]
    result, exc = None, None
    signal.signal(signal.SIGALRM, _alarm)
    signal.alarm(time_limit)
    try:
        try:
            result = fn(*call_args)
        finally:
            signal.alarm(0)
    except Timeout:
        return 'violated', {'kind': 'timeout', 'msg': 'no result within %ds (non-termination?)' % time_limit}
    except RecursionError as e:
        exc = e
    except Exception as e:
        exc = e
    post = dict(env)
    try:
        if exc is None:
            post['result'] = result
            for (ename, when, iff, ens) in contract.raises:
                if iff and when is not None and ev(when, g, pre_env):
                    return 'violated', {'kind': 'raises_iff', 'msg': 'expected %s but returned %r' % (ename, result)}
            for i, e in enumerate(contract.ensures):
                if not ev(e, g, post, pre_env):
                    return 'violated', {'kind': 'post', 'clause': i, 'msg': 'ensures #%d false: %s; result=%r' % (i, ast.unparse(e), result)}
            return 'ok', None
        post['exc'] = exc
        for (ename, when, iff, ens) in contract.raises:
            cls = g.get(ename) or getattr(__import__('builtins'), ename, None)
            if cls is None:
                for modname in ('asn1tools.codecs.ber', 'asn1tools.codecs.per', 'asn1tools.codecs'):
                    cls = getattr(importlib.import_module(modname), ename, None)
                    if cls is not None:
                        break
            if cls is None and '.' in ename:
                cls = resolve_target(importlib.import_module(ename.split('.')[0]), ename.split('.', 1)[1])
            if cls is not None and isinstance(exc, cls):
                if when is not None and not ev(when, g, pre_env):
                    return 'violated', {'kind': 'raises.when', 'msg': '%s raised outside its condition: %r' % (ename, exc)}
                for i, e in enumerate(ens):
                    if not ev(e, g, post, pre_env):
                        return 'violated', {'kind': 'raises.ensures', 'msg': 'raises(%s) ensures #%d false' % (ename, i)}
                return 'ok', None
        return 'violated', {'kind': 'raises.unlisted', 'msg': 'unlisted exception %s: %s' % (type(exc).__name__, exc),
                            'traceback': ''.join(traceback.format_exception(type(exc), exc, exc.__traceback__))[-1500:]}
    except Timeout:
        return 'violated', {'kind': 'timeout', 'msg': 'contract evaluation timeout'}
    except Exception as e:
        return 'error', {'kind': 'contract-eval', 'msg': 'contract evaluation raised %r' % (e,),
                         'traceback': traceback.format_exc()[-1500:]}


# ------------------------------------------------------------------------------ value (de)serialisation
def to_json(v):
    if isinstance(v, bool) or v is None or isinstance(v, (int, str)):
        return v
    if isinstance(v, float):
        return {'__float__': repr(v)}
    if isinstance(v, bytes):
        return {'__bytes__': v.hex()}
    if isinstance(v, bytearray):
        return {'__bytearray__': bytes(v).hex()}
    if isinstance(v, tuple):
        return {'__tuple__': [to_json(x) for x in v]}
    if isinstance(v, list):
        return [to_json(x) for x in v]
    if isinstance(v, dict):
        return {'__dict__': [[to_json(k), to_json(x)] for k, x in v.items()]}
    if hasattr(v, '__dict__'):
        return {'__obj__': type(v).__module__ + ':' + type(v).__qualname__,
                'fields': {k: to_json(x) for k, x in vars(v).items()}}
    return {'__repr__': repr(v)}


def from_json(j):
    if isinstance(j, list):
        return [from_json(x) for x in j]
    if isinstance(j, dict):
        if '__bytes__' in j:
            return bytes.fromhex(j['__bytes__'])
        if '__bytearray__' in j:
            return bytearray.fromhex(j['__bytearray__'])
        if '__tuple__' in j:
            return tuple(from_json(x) for x in j['__tuple__'])
        if '__float__' in j:
            return float(j['__float__'])
        if '__dict__' in j:
            return {from_json(k): from_json(x) for k, x in j['__dict__']}
        if '__obj__' in j:
            modname, qual = j['__obj__'].split(':')
            cls = resolve_target(importlib.import_module(modname), qual)
            o = cls.__new__(cls)
            for k, x in j['fields'].items():
                setattr(o, k, from_json(x))
            return o
        if '__unset__' in j:
            return None
        if '__const__' in j:
            modname, name = j['__const__'].split(':')
            return getattr(importlib.import_module(modname), name)
    return j


# ------------------------------------------------------------------------------ generators
BYTE_POOL = [0, 1, 2, 3, 0x1e, 0x1f, 0x20, 0x3f, 0x5f, 0x7e, 0x7f, 0x80, 0x81, 0x82, 0x83, 0x84, 0x9f, 0xbf,
             0xc0, 0xc1, 0xc4, 0xdf, 0xfe, 0xff, 0x30, 0x31, 0x04, 0x05]
INT_POOL = [0, 1, 2, 3, 7, 8, 9, 15, 16, 30, 31, 32, 39, 40, 41, 63, 64, 65, 79, 80, 81, 126, 127, 128, 129,
            255, 256, 257, 1023, 16383, 16384, 16385, 32767, 32768, 49152, 65535, 65536, 65537,
            2 ** 24 - 1, 2 ** 24, 2 ** 31 - 1, 2 ** 31, 2 ** 32 - 1, 2 ** 32, 2 ** 56, 2 ** 63 - 1, 2 ** 63, 2 ** 64 - 1,
            2 ** 64, 2 ** 64 + 1, 2 ** 70]


def gen_value(ty, rnd, mod, fields_decl, depth=0):
    if ty is None:
        return None
    if isinstance(ty, ast.Constant) and ty.value is None:
        return None
    if isinstance(ty, ast.Name):
        n = ty.id
        if n == 'Int':
            v = rnd.choice(INT_POOL) if rnd.random() < 0.7 else rnd.getrandbits(rnd.choice([4, 8, 16, 33, 65, 80]))
            return -v if rnd.random() < 0.35 else v
        if n == 'Nat':
            return rnd.choice(INT_POOL) if rnd.random() < 0.7 else rnd.getrandbits(rnd.choice([4, 8, 16, 33, 65, 80]))
        if n == 'Byte':
            return rnd.choice(BYTE_POOL) if rnd.random() < 0.7 else rnd.randrange(256)
        if n == 'Bool':
            return rnd.random() < 0.5
        if n in ('Bytes', 'ByteArray', 'IntList', 'IntTuple'):
            ln = rnd.choice([0, 1, 2, 3, 4, 5, 6, 8, 12]) if rnd.random() < 0.9 else rnd.randrange(120, 140)
            b = [rnd.choice(BYTE_POOL) if rnd.random() < 0.6 else rnd.randrange(256) for _ in range(ln)]
            return {'Bytes': bytes, 'ByteArray': bytearray, 'IntList': list, 'IntTuple': tuple}[n](b)
        if n == 'Str':
            ln = rnd.choice([0, 1, 2, 3, 5, 8])
            return ''.join(rnd.choice('ab01 "\'-/*\n:{},.xE') for _ in range(ln))
        if n == 'NoneT':
            return None
        if n == 'AbsList':
            return []
        if n == 'AbsDict':
            return {}
        if n == 'ValSeq':
            return [gen_value(ast.Name('Val'), rnd, mod, fields_decl) for _ in range(rnd.randrange(4))]
        if n == 'Float':
            return rnd.choice([0.0, 1.0, -1.5, 1e300, 5e-324, float('inf'), float('-inf'), 0.1, 123456.789])
        if n == 'IntOrMin':
            return 'MIN' if rnd.random() < 0.3 else gen_value(ast.Name('Int'), rnd, mod, fields_decl)
        if n == 'IntOrMax':
            return 'MAX' if rnd.random() < 0.3 else gen_value(ast.Name('Int'), rnd, mod, fields_decl)
        if n == 'Val':
            return rnd.choice([0, 1, -1, 5, 'a', 'MIN', b'\x00', None, True, (b'\x80', 1), 2.5, [1], {'a': 1}])
    if isinstance(ty, ast.Call) and isinstance(ty.func, ast.Name):
        n = ty.func.id
        if n == 'Opt':
            return None if rnd.random() < 0.3 else gen_value(ty.args[0], rnd, mod, fields_decl, depth)
        if n == 'Union':
            return gen_value(rnd.choice(ty.args), rnd, mod, fields_decl, depth)
        if n == 'Lit':
            return ast.literal_eval(ty.args[0])
        if n == 'Tup':
            return tuple(gen_value(a, rnd, mod, fields_decl, depth) for a in ty.args)
        if n == 'ListOf':
            mx = ast.literal_eval(ty.args[1]) if len(ty.args) > 1 else 2
            return [gen_value(ty.args[0], rnd, mod, fields_decl, depth) for _ in range(rnd.randrange(mx + 1))]
        if n == 'Const':
            rel, name = [ast.literal_eval(a) for a in ty.args]
            m = importlib.import_module(rel[:-3].replace('/', '.').replace('.__init__', ''))
            return getattr(m, name)
        if n == 'Map':
            kk = ast.literal_eval(ty.args[0])
            kty = {'int': ast.Name('Int'), 'str': ast.Name('Str'), 'bytes': ast.Name('Bytes'), 'val': ast.Name('Int')}[kk]
            d = {}
            for _ in range(rnd.randrange(4)):
                try:
                    d[gen_value(kty, rnd, mod, fields_decl, depth)] = gen_value(ty.args[1], rnd, mod, fields_decl, depth + 1)
                except TypeError:
                    pass
            return d
        if n == 'ObjSeq':
            if depth > 2:
                return []
            return [gen_value(ast.Call(ast.Name('Obj'), ty.args, []), rnd, mod, fields_decl, depth + 1)
                    for _ in range(rnd.randrange(3))]
        if n in ('Obj', 'Exc'):
            vals = [ast.literal_eval(a) for a in ty.args]
            if len(vals) == 2:
                m = importlib.import_module(vals[0][:-3].replace('/', '.').replace('.__init__', ''))
                cls = getattr(m, vals[1])
            else:
                cls = getattr(mod, vals[0])
            return gen_object(cls, rnd, fields_decl, depth)
    raise NotImplementedError('generator for %s' % ast.unparse(ty))


def class_relpath(cls):
    m = sys.modules[cls.__module__]
    f = m.__file__
    i = f.rfind('asn1tools' + os.sep)
    return f[i:]


def is_abstract_class(cls):
    return cls.__name__ in ('Type', 'BaseType') or cls.__name__.endswith('Mixin')


def leaf_subclasses(cls, fields_decl):
    m = sys.modules[cls.__module__]
    out = []
    for v in vars(m).values():
        if isinstance(v, type) and issubclass(v, cls) and v is not cls and v.__module__ == cls.__module__ \
                and not is_abstract_class(v) and v.__name__ in ('Boolean', 'Integer', 'Null', 'Enumerated', 'Real',
                                                                  'ObjectIdentifier'):
            out.append(v)
    return out


def check_invariants_of(o, invs, genv):
    for c2 in type(o).__mro__:
        if c2.__module__.startswith('asn1tools'):
            for inv in invs.get((class_relpath(c2), c2.__name__), []):
                try:
                    if not ev(inv, genv, {'self': o}):
                        return False
                except Exception:
                    return False
    return True


_INVS = {}


def gen_object(cls, rnd, fields_decl, depth=0):
    if is_abstract_class(cls) and depth > 0:
        leaves = leaf_subclasses(cls, fields_decl)
        if leaves:
            g = dict(load_spec_env())
            g['implies'] = lambda a, b: (not a) or b
            for _ in range(30):
                o = gen_object(rnd.choice(leaves), rnd, fields_decl, depth)
                g2 = dict(g); g2.update(vars(sys.modules[type(o).__module__]))
                if check_invariants_of(o, _INVS, g2):
                    return o
            raise NotImplementedError('no instance of %s satisfying its invariant found' % cls.__name__)
    o = cls.__new__(cls)
    decl = {}
    for c in reversed(cls.__mro__):
        if c.__module__.startswith('asn1tools'):
            decl.update(fields_decl.get((class_relpath(c), c.__name__), {}))
    m = sys.modules[cls.__module__]
    for k, ty in decl.items():
        if k.isupper() and hasattr(cls, k):
            continue                 # class-level constant (ENCODING, TAG): keep the real one
        setattr(o, k, gen_value(ty, rnd, m, fields_decl, depth + 1))
    for c in reversed(cls.__mro__):
        if c.__module__.startswith('asn1tools'):
            for code in FIXUPS.get((class_relpath(c), c.__name__), []):
                genv_ = dict(vars(sys.modules[c.__module__]))
                genv_.update({'self': o, 'rnd': rnd})
                exec(code, genv_)
    return o


ABSTRACT_TYPE_NAMES = {'Obj', 'ObjSeq', 'ValSeq', 'Exc'}


def ann_is_abstract(ty):
    for n in ast.walk(ty) if ty is not None else []:
        if isinstance(n, ast.Call) and isinstance(n.func, ast.Name) and n.func.id in ABSTRACT_TYPE_NAMES:
            return True
        if isinstance(n, ast.Name) and n.id in ('Val', 'ValSeq', 'AbsList', 'AbsDict'):
            return True
    return False


def eligible(c, cls, fields_decl):
    """a contract is cross-checked natively only when it is closed: no ghost predicate, no abstract child object,
    no opaque value parameter (otherwise the generated inputs are ill-typed for the real code)"""
    exprs = list(c.requires) + list(c.ensures)
    for (_e, when, _i, ens) in c.raises:
        if when is not None:
            exprs.append(when)
        exprs.extend(ens)
    if any(mentions_ghost(e) for e in exprs):
        return False, 'ghost predicate in a clause'
    if getattr(c, 'uses_abstract', False):
        return False, 'abstract callee'
    for p, ty in c.params.items():
        if p != 'self' and ann_is_abstract(ty):
            # per-call stream objects (Obj("Encoder") / Obj("Decoder")) are concrete classes with plain fields: they
            # are generated like `self` (fields + fixups); every other object / opaque parameter stays excluded
            if isinstance(ty, ast.Call) and isinstance(ty.func, ast.Name) and ty.func.id == 'Obj' and len(ty.args) == 1 \
                    and isinstance(ty.args[0], ast.Constant) and ty.args[0].value in ('Encoder', 'Decoder'):
                # ... provided the receiver has no child type objects at all (the real code would call into them)
                child = None
                if cls is not None:
                    for k2 in reversed(cls.__mro__):
                        if k2.__module__.startswith('asn1tools'):
                            for fname, fty in fields_decl.get((class_relpath(k2), k2.__name__), {}).items():
                                if any(isinstance(n_, ast.Call) and isinstance(n_.func, ast.Name) and n_.func.id in ('Obj', 'ObjSeq')
                                       for n_ in ast.walk(fty)):
                                    child = fname
                if child is None:
                    continue
                return False, 'abstract child object %s' % child
            return False, 'abstract/opaque parameter %s' % p
    if cls is not None:
        # only the fields the clauses mention matter
        mentioned = set()
        for e in exprs:
            for n in ast.walk(e):
                if isinstance(n, ast.Attribute) and isinstance(n.value, ast.Name) and n.value.id == 'self':
                    mentioned.add(n.attr)
        for k2 in reversed(cls.__mro__):
            if k2.__module__.startswith('asn1tools'):
                for fname, ty in fields_decl.get((class_relpath(k2), k2.__name__), {}).items():
                    if ann_is_abstract(ty) and fname in mentioned:
                        return False, 'abstract field %s' % fname
    return True, ''


def run_crosscheck(repo_root, contracts_dir, idents, n, seed, time_limit=5, classmap=None):
    """bounded stand-in: n generated inputs per contract; returns JSON-able report"""
    cs, fields_decl, invs = parse_sidecars(contracts_dir)
    _INVS.clear(); _INVS.update(invs)
    genv = {'implies': lambda a, b: (not a) or b}
    report = {}
    classmap = classmap or {}
    for ident in idents:
        base_ident = ident
        if ident not in cs and '@' in ident:
            base_ident = ident.split('@')[0] + '@*' + (('#' + ident.split('#')[1]) if '#' in ident else '')
            if base_ident not in cs:
                base_ident = base_ident.replace('@*', '@any')
        c = cs[base_ident]
        rnd = random.Random('%s/%s' % (seed, ident))
        rep = {'evaluations': 0, 'skipped': 0, 'violations': [], 'errors': [], 'outcomes': {}}
        report[ident] = rep
        try:
            mod = target_module(repo_root, c.relpath)
            fn = resolve_target(mod, c.qualname)
        except Exception as e:
            rep['errors'].append('cannot import target: %r' % (e,))
            continue
        import inspect
        sig_params = list(inspect.signature(fn).parameters)
        distinct = set()
        cls0 = None
        if 'self' in sig_params and c.params.get('self') is None:
            try:
                if ident in classmap:
                    cls0 = getattr(target_module(repo_root, classmap[ident][0]), classmap[ident][1])
                else:
                    cls0 = getattr(mod, c.for_class) if (c.for_class and c.for_class != '*') else \
                        resolve_target(mod, c.qualname.rsplit('.', 1)[0])
            except Exception:
                cls0 = None
        ok_, why = eligible(c, cls0, fields_decl)
        if not ok_:
            rep['not_cross_checked'] = why
            continue
        examples = []
        if 'examples' in c.native:
            try:
                examples = ast.literal_eval(c.native['examples'])
            except Exception:
                examples = []
        for it in range(n + len(examples)):
            try:
                args = {}
                for p in sig_params:
                    if p == 'self' and c.params.get('self') is None:
                        if ident in classmap:
                            cls = getattr(target_module(repo_root, classmap[ident][0]), classmap[ident][1])
                        else:
                            cls = getattr(mod, c.for_class) if c.for_class else resolve_target(mod, c.qualname.rsplit('.', 1)[0])
                        args['self'] = gen_object(cls, rnd, fields_decl)
                    elif p in c.params:
                        args[p] = gen_value(c.params[p], rnd, mod, fields_decl)
                if it < len(examples):
                    args.update(examples[it])        # hand-picked inputs from the sidecar (native(examples=[...]))
                ghosts = {g: gen_value(t, rnd, mod, fields_decl) for g, t in c.ghosts.items()}
                for g in c.param_order:
                    if g not in args and g != 'self' and g not in ghosts:
                        ghosts[g] = gen_value(c.params[g], rnd, mod, fields_decl)
            except NotImplementedError as e:
                rep['errors'].append(str(e))
                break
            # class invariants as preconditions
            ok_inv = True
            if 'self' in args:
                env = dict(args)
                g2 = dict(genv); g2.update(vars(mod)); g2.update(load_spec_env())
                for c2 in type(args['self']).__mro__:
                    if c2.__module__.startswith('asn1tools'):
                        for inv in invs.get((class_relpath(c2), c2.__name__), []):
                            try:
                                if not ev(inv, g2, env):
                                    ok_inv = False
                            except Exception:
                                ok_inv = False
            if not ok_inv:
                rep['skipped'] += 1
                continue
            snapshot = to_json({k: v for k, v in args.items()})
            st, detail = check_call(c, mod, genv, args, ghosts, time_limit)
            if st == 'skipped':
                rep['skipped'] += 1
                continue
            rep['evaluations'] += 1
            key = json.dumps(snapshot, sort_keys=True, default=str)
            distinct.add(key)
            if st == 'violated':
                if len(rep['violations']) < 5:
                    rep['violations'].append({'inputs': snapshot, 'ghosts': to_json(ghosts), 'detail': detail})
            elif st == 'error':
                if len(rep['errors']) < 3:
                    rep['errors'].append(detail)
            if it < 2 and st == 'ok':
                rep.setdefault('samples', []).append(snapshot)
        rep['distinct'] = len(distinct)
    return report


def replay(repo_root, contracts_dir, ident, inputs_json, ghosts_json=None, time_limit=10):
    cs, fields_decl, invs = parse_sidecars(contracts_dir)
    if ident not in cs and '@' in ident:
        base = ident.split('@')[0]
        tail = (('#' + ident.split('#')[1]) if '#' in ident else '')
        ident = base + '@*' + tail if (base + '@*' + tail) in cs else base + '@any' + tail
    c = cs[ident]
    mod = target_module(repo_root, c.relpath)
    args = {k: from_json(v) for k, v in inputs_json.items()}
    ghosts = {k: from_json(v) for k, v in (ghosts_json or {}).items()}
    genv = {'implies': lambda a, b: (not a) or b}
    st, detail = check_call(c, mod, genv, args, ghosts, time_limit, ignore_known=True)
    return {'status': st, 'detail': detail}


def main():
    sys.setrecursionlimit(20000)
    req = json.load(sys.stdin)
    if req['cmd'] == 'crosscheck':
        out = run_crosscheck(req['repo'], req['contracts'], req['idents'], req['n'], req['seed'], req.get('time_limit', 5), req.get('classmap'))
    elif req['cmd'] == 'replay':
        out = replay(req['repo'], req['contracts'], req['ident'], req['inputs'], req.get('ghosts'), req.get('time_limit', 10))
    else:
        raise SystemExit('unknown cmd')
    json.dump(out, sys.stdout, default=str)


if __name__ == '__main__':
    main()
