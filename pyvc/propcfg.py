"""Per-property configuration of the check (which extra analyses run, assumptions, bounded parts)."""
from . import extras

TERMINATION_PROPS = {'C08'}

PROPS = {
    'C15': {
        'level': 'proof',
        'assumptions': [
            'decode_with_length(msg ++ tail) == (decode(msg), len(msg)) for whole compiled types rests on the per-class '
            'BER decode contracts (tail independence: every contract quantifies over the bytes after the element)',
        ],
        'trusted_base': [],
        'explanation': 'X.690 identifier/length octet framing: skip_tag, decode_length, decode_full_length against tlv spec',
    },
    'C18': {
        'level': 'proof',
        'extra': [('pyvc-own', extras.frame_check)],
        'needs_contracts': False,
        'assumptions': [
            'CPython builtins used by the codecs (json, xml.etree, struct, binascii, datetime) are re-entrant and do not '
            'keep state between calls',
            'reading shared immutable objects from several threads is safe',
            'method resolution is by name within a codec family (conservative); receiver types are not inferred',
            'frame contracts (which parameters are per-call objects) are those of pyvc/own.py FrameSpec',
        ],
        'trusted_base': ['pyvc-own frame checker (pyvc/own.py)'],
        'explanation': 'every write site in every function reachable from encode/decode is rooted in an object created by '
                       'the call or in an owned per-call parameter; hence calls are pure functions of their arguments',
    },
}
