"""Per-property configuration of the check (which extra analyses run, assumptions, bounded parts)."""
from . import extras

TERMINATION_PROPS = {'C08'}

FOREIGN = ('assumed contracts of builtins: int.to_bytes/from_bytes, binascii.hexlify + int(.,16), hex()/unhexlify on 0x80-prefixed '
           'numbers (hex80_axiom), slicing/indexing/IndexError, bytearray range check (ValueError), str/bytes codecs as '
           'uninterpreted functions')
GRAPH = ('the compiled type graph is built from the classes under contract; parser and descriptor -> constructor dispatch '
         '(compile_type) are not proved')

PROPS = {
    'C15': {
        'assumptions': [
            'decode_with_length(msg ++ tail) == (decode(msg), len(msg)) for whole compiled types rests on the per-class BER decode '
            'contracts (tail independence: every contract quantifies over the bytes after the element); exact consumption of '
            'nested containers (MembersType.decode_members) is not proved', GRAPH],
        'trusted_base': [FOREIGN],
        'explanation': 'X.690 identifier/length octet framing: skip_tag, decode_length, decode_full_length against tlv spec',
    },
    'C18': {
        'extra': [('pyvc-own', extras.frame_check)],
        'needs_contracts': False,
        'assumptions': [
            'CPython builtins used by the codecs (json, xml.etree, struct, binascii, datetime) are re-entrant and do not keep state',
            'reading shared immutable objects from several threads is safe',
            'method resolution is by name within a codec family (conservative); receiver types are not inferred',
            'frame contracts (which parameters are per-call objects) are those of pyvc/own.py FrameSpec'],
        'trusted_base': ['pyvc-own frame checker (pyvc/own.py)'],
        'explanation': 'every write site in every function reachable from encode/decode is rooted in an object created by the call or '
                       'in an owned per-call parameter; hence calls are pure functions of their arguments',
    },
    'C03': {
        'extra': [('pyvc-own(copy-before-write)', extras.cow_check), ('SET ordering', extras.set_order_check),
                  ('memo-key', extras.memo_key_check), ('contract coverage', extras.contract_coverage_check)],
        'assumptions': [GRAPH, 'SET ordering, SET OF sorting and named-bit cleaning are data-flow obligations over the AST (sorted() and '
                        'bytes.rstrip are assumed builtins), not SMT proofs; the sort key is wrong for tag numbers >= 16384 '
                        '(known, DESIGN.md I.3)',
                        'time types and REAL contents beyond the integer part are not under contract'],
        'trusted_base': [FOREIGN],
        'explanation': 'DER primitives against X.690: minimal definite length, identifier octets, minimal two\'s complement, BOOLEAN '
                       '0xFF, BIT STRING unused bits, TLV wrapper; compile-time copy-before-write so a DEFAULT/SIZE/tag of one use site '
                       'cannot leak into another',
    },
    'C06': {
        'assumptions': [GRAPH, 'Real, ObjectIdentifier, time types, decode_root (dict comprehension with reads) of the OER codec are not '
                        'under contract; the encoders collected for extension additions are assumed to hold whole octets '
                        '(listed assumes clause)'],
        'trusted_base': [FOREIGN, 'struct.pack/unpack: assumed builtin contract for the eight single-field big-endian formats'],
        'explanation': 'OER bit stream algebra (Encoder/Decoder primitives), INTEGER width selection against X.696 10, BOOLEAN, '
                       'fixed-size BIT STRING / OCTET STRING consumption',
    },
    'C05': {
        'assumptions': [GRAPH, 'exactness contracts of the PER Encoder cover accumulators of up to 4096 bits (before the first flush to '
                        'chunks); the flush path is covered by bit-count contracts only',
                        'fragmented forms (>= 16K items; generator functions), MembersType.encode / decode_root (chunk offsets, '
                        'comprehension with reads), Real, ObjectIdentifier and time types of PER/UPER are not under contract'],
        'trusted_base': [FOREIGN],
        'explanation': 'PER/UPER Encoder and Decoder primitives against X.691 11: alignment over all bits written, length determinant '
                       'forms, normally small numbers/lengths, constrained whole numbers (aligned variant), checked reads',
    },
    'C16': {
        'assumptions': [GRAPH, 'prefix lemma (a run on a prefix coincides with the run on the whole input until the first read that '
                        'crosses the cut) and the consumption lemma are argued in DESIGN.md (C16), not mechanised'],
        'trusted_base': [FOREIGN],
        'explanation': 'checked reads: every decoder primitive raises the library decode error (and consumes nothing) when fewer bits '
                       'or octets are left than it needs, and raises no other exception on that path',
    },
    'C08': {
        'extra': [('pyvc-own(decode paths)', extras.frame_check_decode)],
        'assumptions': [GRAPH, 'PER/OER decode_root (comprehension with reads), generator-based fragment loops, JER/XER (json / ElementTree) '
                        'are not under contract',
                        'cost is bounded only through the decreases measures (iterations <= octets consumed)'],
        'trusted_base': [FOREIGN],
        'explanation': 'a decreases measure for every while loop of the BER/DER/OER decode kernels, progress contracts '
                       '(offset strictly grows or TAG_MISMATCH at the same offset, never silently kept), lengths checked against the '
                       'remaining data before use; decode paths write no shared state (frame check)',
    },
    'C04': {
        'assumptions': [GRAPH, 'acceptance of SET members in *any* order beyond one round of decode_members (permutation argument) is '
                        'argued, not mechanised; text decoding (bytes.decode) is an assumed builtin'],
        'trusted_base': [FOREIGN],
        'explanation': 'BER decoder accepts every X.690 length form (short, long with leading zeros, indefinite with end-of-contents), '
                       'primitive and constructed tag forms of strings, nested constructed segments (progress + termination)',
    },
    'C07': {
        'extra': [('presence guard', extras.presence_guard_check)],
        'assumptions': [GRAPH, 'OER decode_additions ignores the announced length of an addition this version knows (consumption is then '
                        'the addition decoder\'s own); JER/XER are outside (C02)'],
        'trusted_base': [FOREIGN],
        'explanation': 'skip/re-synchronisation: an unknown CHOICE alternative is skipped by exactly its TLV, unknown ENUMERATED values '
                       'of extensible types decode to None, skip_bits is a checked skip',
    },
    'C11': {
        'extra': [('pyvc-own(copy-before-write)', extras.cow_check)],
        'assumptions': [GRAPH, 'bound resolution through value references (Compiler.get_size_range / get_restricted_to_range) and '
                        'the compiler-side construction of the checker objects are not under contract'],
        'trusted_base': [FOREIGN],
        'explanation': 'iff-contracts of the constraints checker: range bookkeeping (extensible => not enforced), INTEGER / BIT STRING / '
                       'OCTET STRING / character string size and alphabet, SEQUENCE OF (every element visited), CHOICE',
    },
    'C12': {
        'assumptions': [GRAPH, 'induction over the value structure (each container adds its component when the child error passes '
                        'through) is argued, not mechanised; JER is outside (C02); add_location is under contract on the '
                        'identity model of path elements'],
        'trusted_base': [FOREIGN],
        'explanation': 'type checker accepts exactly the Python types of the README table (raises-iff per kind); the location of an '
                       'error raised inside a CHOICE alternative / recursive type / top-level type ends with that component, so the '
                       'printed dotted path starts at the type and leads to the component',
    },
    'C17': {
        'level': 'other',
        'extra': [('cache-key data-flow', extras.cache_key_check)],
        'needs_contracts': False,
        'assumptions': ['diskcache.Cache is a map with atomic stores whose values survive pickling (crash points and damaged cache '
                        'files rest on sqlite/pickle integrity; outside any contract here)',
                        'compile_dict(parse_files(...)) is a deterministic function of file contents, codec and options'],
        'trusted_base': ['data-flow analysis in pyvc/extras.py::cache_key_check'],
        'explanation': 'key-determines-result: every input of the miss branch flows into the key; the file part is the raw bytes; every '
                       'variable-length part is length prefixed and the codec names are prefix free (injective framing); cached and '
                       'uncached paths receive the same arguments',
    },
    'C14': {
        'level': 'other',
        'extra': [('comment pre-pass', extras.comments_check)],
        'needs_contracts': False,
        'assumptions': ['the pyparsing grammar is insensitive to white space between tokens (foreign library driven by data: not '
                        'reachable by a contract; multi-word keywords written as one Keyword literal are a known limitation)',
                        're.finditer returns the leftmost non-overlapping matches'],
        'trusted_base': ['reference automaton spec/x680.py::blank_comments as the reading of X.680 12.6'],
        'bounded': [{'what': 'ignore_comments == reference automaton, exhaustively for every string up to the length bound over the '
                             'alphabet - / * newline " a', 'counted_as_proved': False}],
        'explanation': 'BOUNDED stand-in (the pre-pass is driven by re.finditer and string joins the engine cannot reach): exhaustive '
                       'comparison with a reference automaton below a length bound, plus three data-flow obligations on parse_string '
                       '(text reaches the pre-pass and the grammar unmodified, error line taken from the exception)',
    },
    'C19': {
        'level': 'other',
        'extra': [('pyvc-own(copy-before-write)', extras.cow_check), ('module threading', extras.module_threading_check),
                  ('memo-key', extras.memo_key_check), ('pre_process idempotence', extras.preprocess_idempotence_check)],
        'needs_contracts': False,
        'assumptions': ['permutation of assignments/modules/files and the duplicate-name rule of Specification.__init__ are NOT '
                        'covered; DEFAULT conversion through references is covered for BOOLEAN / BIT STRING / OCTET STRING only '
                        '(an OBJECT IDENTIFIER default through a reference is parsed to None: known, DESIGN.md I.3); all obligations '
                        'here are data-flow obligations over the AST, not SMT proofs'],
        'trusted_base': ['pyvc-own (pyvc/own.py) and the data-flow analysis in pyvc/extras.py'],
        'explanation': 'reduced: (3) copy-before-write -- a member-specific OPTIONAL/DEFAULT/SIZE/tag is only ever written into a '
                       'copy, never into the object stored in the compiled-type cache; (4) every part of a looked-up descriptor is '
                       'interpreted in the module it was found in (module threading through lookup_* calls)',
    },
    'C13': {
        'level': 'other',
        'extra': [('module threading', extras.module_threading_check), ('pyvc-own(copy-before-write)', extras.cow_check),
                  ('pre_process coverage', extras.preprocess_coverage_check), ('memo-key', extras.memo_key_check),
                  ('pre_process idempotence', extras.preprocess_idempotence_check)],
        'needs_contracts': False,
        'assumptions': ['idempotence is decided only through the guarded-rewrite obligation (a pass that recomputes a field from '
                        'its own old value tests the old value) and the marker-consuming structure of the delegated passes; '
                        'option-independence is NOT covered: known defect 12 (ENUMERATED default rewritten in place under '
                        'numeric_enums, then compiled again without it) remains open'],
        'trusted_base': ['data-flow analysis in pyvc/extras.py'],
        'explanation': 'reduced: module threading of COMPONENTS OF / type resolution (a dictionary whose module order changes, e.g. '
                       'after pformat/eval, is expanded the same way) and copy-before-write of compiled members',
    },
    'C01': {
        'lemmas': ['tc_roundtrip', 'be_roundtrip_nonneg', 'be_roundtrip_neg', 'der_length_roundtrip', 'field_cat', 'div_cat',
                   'mod_cat', 'be_val_nonneg', 'be_val_bound'],
        'assumptions': [GRAPH, 'composition of the per-class pairs into whole type graphs (structural induction) is argued, not mechanised',
                        'containers (SEQUENCE/SET member loops, CHOICE index, PER/OER additions), strings and time types are not '
                        'paired yet; REAL (math.frexp, float arithmetic) is outside this family (IEEE-754): no contract'],
        'trusted_base': [FOREIGN],
        'explanation': 'per-class encode/decode contracts against the same spec functions (INTEGER two\'s complement, BOOLEAN, '
                       'length octets, OER/PER bit-stream primitives) plus round-trip lemmas over those spec functions proved by '
                       'induction: tc_roundtrip, be_roundtrip_*, der_length_roundtrip, field_cat',
    },
    'C20': {
        'assumptions': [GRAPH, 'unique readability of the notation (doubling quotes makes StringValue unambiguous; lists are bracketed) is '
                        'argued, not proved; str.replace / str.upper / str.lstrip / str(int) are uninterpreted functions',
                        'SEQUENCE/SET/OF text is only under an unconditional contract (no exception but EncodeError); BIT STRING, '
                        'OCTET STRING, OBJECT IDENTIFIER, time types and REAL text forms are not under contract'],
        'trusted_base': [FOREIGN],
        'explanation': 'GSER leaf encoders against RFC 3641 spec functions (StringValue with doubled quotes, BOOLEAN, INTEGER, NULL, '
                       'ENUMERATED, CHOICE "id : value"), and the top-level wrapper (the value text is embedded unchanged apart from '
                       'stripping leading spaces)',
    },
}
