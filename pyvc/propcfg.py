"""Per-property configuration of the check (which extra analyses run, assumptions, bounded parts)."""

TERMINATION_PROPS = {'C08'}

PROPS = {
    'C15': {
        'level': 'proof',
        'assumptions': [
            'decode_with_length(msg ++ tail) == (decode(msg), len(msg)) for whole compiled types rests on the per-class '
            'BER decode contracts (tail independence: every contract quantifies over the bytes after the element)',
        ],
        'trusted_base': [],
        'explanation': 'X.690 identifier/length octet framing: skip_tag, decode_length, decode_full_length against tlv spec',
    },
}
