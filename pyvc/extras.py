"""Non-SMT analyses registered as extra back ends of a property check."""
import os

CODEC_MODULES = ['ber', 'der', 'per', 'uper', 'oer', 'jer', 'xer', 'gser', 'type_checker', 'constraints_checker',
                 '__init__', 'permitted_alphabet']


def frame_check(repo, tier, seed, entry_names=('encode', 'decode', 'decode_with_length', 'decode_length'),
                name='pyvc-own', only_decode=False):
    from .own import FrameChecker
    mods = {'asn1tools/codecs/%s.py' % c for c in CODEC_MODULES} | {'asn1tools/compiler.py'}
    ck = FrameChecker(repo, mods)
    names = [n for n in entry_names if (not only_decode or n.startswith('decode'))]
    entries = ck.entry_points(names, class_names=['CompiledType', 'Specification'])
    seen = ck.reachable(entries)
    obligations = discharged = 0
    violations = []
    funcs = []
    for ident, fa in sorted(seen.items()):
        n = len(fa.sites)
        ok = sum(1 for s in fa.sites if s['ok'])
        obligations += n
        discharged += ok
        if n:
            funcs.append({'function': ident, 'source_sha256': fa.func.sha, 'paths': 1, 'obligations': n,
                          'discharged': ok, 'outcomes': {}, 'seconds': 0.0, 'inlined_callees': []})
        for s in fa.sites:
            if not s['ok']:
                violations.append({
                    'obligation': '%s/assigns@%d' % (ident, s['line']),
                    'function': ident, 'verdict': 'frame violation',
                    'solver_output': '%s: %s (root `%s` is %s: not created by this call, not an owned parameter)' % (
                        ident, s['what'], s['target'], s['root_kind']),
                    'line': s['line'], 'inputs': None})
    undecided = []
    if not entries or len(seen) < 50:
        undecided.append({'function': 'pyvc-own', 'kind': 'vacuous',
                          'reason': 'entry points not found / call graph collapsed (%d functions)' % len(seen)})
    return {'name': name, 'obligations': obligations, 'discharged': discharged, 'violations': violations,
            'functions': funcs, 'undecided': undecided,
            'coverage': {'entry_points': [e.ident for e in entries], 'reachable_functions': len(seen),
                         'write_sites': obligations}}


def frame_check_decode(repo, tier, seed):
    return frame_check(repo, tier, seed, name='pyvc-own(decode paths)', only_decode=True)


# ------------------------------------------------------------------------------------------------------------
def cow_check(repo, tier, seed):
    """copy-before-write frame obligations at compile time (DESIGN C19 (3), also C03/C11/C13): in the functions
    that specialise a compiled type for one use site (Compiler.compile_member, Compiler.compile_type,
    set_compiled_restricted_to) every attribute store and every set_*() call must target an object made by
    self.copy(...) or a constructor in this activation -- never an object that may come from the compiled-type
    cache (result of self.compile_*/get_compiled_type, parameters)."""
    import ast
    from .own import FrameChecker, FuncAnalysis, SHARED, FRESH, IMMUT, OWNED

    class Cow(FuncAnalysis):
        def per_call_self(self):
            return False

        def expr_kind(self, e):
            if isinstance(e, ast.Call):
                f = e.func
                if isinstance(f, ast.Attribute) and isinstance(f.value, ast.Name) and f.value.id == 'self':
                    if f.attr in ('copy', 'set_compiled_restricted_to'):
                        return FRESH
                    return SHARED          # compile_type / compile_user_type / get_compiled_type / ...: maybe cached
                if isinstance(f, ast.Name):
                    if f.id[:1].isupper():
                        return FRESH       # constructor
                    if f.id in ('copy', 'deepcopy'):
                        return FRESH
                    return SHARED
                return SHARED
            return FuncAnalysis.expr_kind(self, e)

        def check_call(self, n):
            f = n.func
            if isinstance(f, ast.Attribute) and f.attr.startswith('set_') and not (
                    isinstance(f.value, ast.Name) and f.value.id == 'self'):
                self.site(n, 'call of setter .%s()' % f.attr, f.value)

        def store_target(self, stmt, t):
            if isinstance(t, ast.Attribute) and not (isinstance(t.value, ast.Name) and t.value.id == 'self'):
                self.site(stmt, 'attribute store .%s' % t.attr, t.value)
            elif isinstance(t, (ast.Tuple, ast.List)):
                for e in t.elts:
                    self.store_target(stmt, e)

    mods = {'asn1tools/codecs/%s.py' % c for c in CODEC_MODULES + ['compiler']}
    ck = FrameChecker(repo, mods)
    names = ('compile_member', 'compile_type', 'set_compiled_restricted_to')
    obligations = discharged = 0
    violations, funcs = [], []
    for m in ck.prog.modules.values():
        if m.relpath not in mods:
            continue
        for c in m.classes.values():
            if c.name != 'Compiler':
                continue
            for n in names:
                f = c.methods.get(n)
                if f is None:
                    continue
                fa = Cow(ck, f).classify()
                fa.kinds['self'] = OWNED
                fa.check()
                k = len(fa.sites)
                ok = sum(1 for s in fa.sites if s['ok'])
                obligations += k
                discharged += ok
                funcs.append({'function': f.ident, 'source_sha256': f.sha, 'paths': 1, 'obligations': k, 'discharged': ok,
                              'outcomes': {}, 'seconds': 0.0, 'inlined_callees': []})
                for s in fa.sites:
                    if not s['ok']:
                        violations.append({'obligation': '%s/copy-before-write@%d' % (f.ident, s['line']),
                                           'function': f.ident, 'verdict': 'frame violation',
                                           'solver_output': '%s: %s on `%s`, which may be an object of the compiled-type cache '
                                                            '(no self.copy() on this path)' % (f.ident, s['what'], s['target']),
                                           'line': s['line'], 'inputs': None})
    undecided = []
    if obligations < 5:
        undecided.append({'function': 'pyvc-own(cow)', 'kind': 'vacuous', 'reason': 'fewer than 5 write sites found'})
    return {'name': 'pyvc-own(copy-before-write)', 'obligations': obligations, 'discharged': discharged,
            'violations': violations, 'functions': funcs, 'undecided': undecided,
            'coverage': {'functions': len(funcs), 'write_sites': obligations}}
