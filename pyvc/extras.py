"""Non-SMT analyses registered as extra back ends of a property check."""
import os

CODEC_MODULES = ['ber', 'der', 'per', 'uper', 'oer', 'jer', 'xer', 'gser', 'type_checker', 'constraints_checker',
                 '__init__', 'permitted_alphabet']


def frame_check(repo, tier, seed, entry_names=('encode', 'decode', 'decode_with_length', 'decode_length'),
                name='pyvc-own', only_decode=False):
    from .own import FrameChecker
    mods = {'asn1tools/codecs/%s.py' % c for c in CODEC_MODULES} | {'asn1tools/compiler.py'}
    ck = FrameChecker(repo, mods)
    names = [n for n in entry_names if (not only_decode or n.startswith('decode'))]
    entries = ck.entry_points(names, class_names=['CompiledType', 'Specification'])
    seen = ck.reachable(entries)
    obligations = discharged = 0
    violations = []
    funcs = []
    for ident, fa in sorted(seen.items()):
        n = len(fa.sites)
        ok = sum(1 for s in fa.sites if s['ok'])
        obligations += n
        discharged += ok
        if n:
            funcs.append({'function': ident, 'source_sha256': fa.func.sha, 'paths': 1, 'obligations': n,
                          'discharged': ok, 'outcomes': {}, 'seconds': 0.0, 'inlined_callees': []})
        for s in fa.sites:
            if not s['ok']:
                violations.append({
                    'obligation': '%s/assigns@%d' % (ident, s['line']),
                    'function': ident, 'verdict': 'frame violation',
                    'solver_output': '%s: %s (root `%s` is %s: not created by this call, not an owned parameter)' % (
                        ident, s['what'], s['target'], s['root_kind']),
                    'line': s['line'], 'inputs': None})
    undecided = []
    if not entries or len(seen) < 50:
        undecided.append({'function': 'pyvc-own', 'kind': 'vacuous',
                          'reason': 'entry points not found / call graph collapsed (%d functions)' % len(seen)})
    return {'name': name, 'obligations': obligations, 'discharged': discharged, 'violations': violations,
            'functions': funcs, 'undecided': undecided,
            'coverage': {'entry_points': [e.ident for e in entries], 'reachable_functions': len(seen),
                         'write_sites': obligations}}


def frame_check_decode(repo, tier, seed):
    return frame_check(repo, tier, seed, name='pyvc-own(decode paths)', only_decode=True)
