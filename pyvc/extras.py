"""Non-SMT analyses registered as extra back ends of a property check."""
import os

CODEC_MODULES = ['ber', 'der', 'per', 'uper', 'oer', 'jer', 'xer', 'gser', 'type_checker', 'constraints_checker',
                 '__init__', 'permitted_alphabet']


def frame_check(repo, tier, seed, entry_names=('encode', 'decode', 'decode_with_length', 'decode_length'),
                name='pyvc-own', only_decode=False):
    from .own import FrameChecker
    mods = {'asn1tools/codecs/%s.py' % c for c in CODEC_MODULES} | {'asn1tools/compiler.py'}
    ck = FrameChecker(repo, mods)
    names = [n for n in entry_names if (not only_decode or n.startswith('decode'))]
    entries = ck.entry_points(names, class_names=['CompiledType', 'Specification'])
    seen = ck.reachable(entries)
    obligations = discharged = 0
    violations = []
    funcs = []
    for ident, fa in sorted(seen.items()):
        n = len(fa.sites)
        ok = sum(1 for s in fa.sites if s['ok'])
        obligations += n
        discharged += ok
        if n:
            funcs.append({'function': ident, 'source_sha256': fa.func.sha, 'paths': 1, 'obligations': n,
                          'discharged': ok, 'outcomes': {}, 'seconds': 0.0, 'inlined_callees': []})
        for s in fa.sites:
            if not s['ok']:
                violations.append({
                    'obligation': '%s/assigns@%d' % (ident, s['line']),
                    'function': ident, 'verdict': 'frame violation',
                    'solver_output': '%s: %s (root `%s` is %s: not created by this call, not an owned parameter)' % (
                        ident, s['what'], s['target'], s['root_kind']),
                    'line': s['line'], 'inputs': None})
    undecided = []
    if not entries or len(seen) < 50:
        undecided.append({'function': 'pyvc-own', 'kind': 'vacuous',
                          'reason': 'entry points not found / call graph collapsed (%d functions)' % len(seen)})
    return {'name': name, 'obligations': obligations, 'discharged': discharged, 'violations': violations,
            'functions': funcs, 'undecided': undecided,
            'coverage': {'entry_points': [e.ident for e in entries], 'reachable_functions': len(seen),
                         'write_sites': obligations}}


def frame_check_decode(repo, tier, seed):
    return frame_check(repo, tier, seed, name='pyvc-own(decode paths)', only_decode=True)


# ------------------------------------------------------------------------------------------------------------
def cow_check(repo, tier, seed):
    """copy-before-write frame obligations at compile time (DESIGN C19 (3), also C03/C11/C13): in the functions
    that specialise a compiled type for one use site (Compiler.compile_member, Compiler.compile_type,
    set_compiled_restricted_to) every attribute store and every set_*() call must target an object made by
    self.copy(...) or a constructor in this activation -- never an object that may come from the compiled-type
    cache (result of self.compile_*/get_compiled_type, parameters)."""
    import ast
    from .own import FrameChecker, FuncAnalysis, SHARED, FRESH, IMMUT, OWNED

    class Cow(FuncAnalysis):
        def per_call_self(self):
            return False

        def expr_kind(self, e):
            if isinstance(e, ast.Call):
                f = e.func
                if isinstance(f, ast.Attribute) and isinstance(f.value, ast.Name) and f.value.id == 'self':
                    if f.attr in ('copy', 'set_compiled_restricted_to'):
                        return FRESH
                    return SHARED          # compile_type / compile_user_type / get_compiled_type / ...: maybe cached
                if isinstance(f, ast.Name):
                    if f.id[:1].isupper():
                        return FRESH       # constructor
                    if f.id in ('copy', 'deepcopy'):
                        return FRESH
                    return SHARED
                return SHARED
            return FuncAnalysis.expr_kind(self, e)

        def check_call(self, n):
            f = n.func
            if isinstance(f, ast.Attribute) and f.attr.startswith('set_') and not (
                    isinstance(f.value, ast.Name) and f.value.id == 'self'):
                self.site(n, 'call of setter .%s()' % f.attr, f.value)

        def store_target(self, stmt, t):
            if isinstance(t, ast.Attribute) and not (isinstance(t.value, ast.Name) and t.value.id == 'self'):
                self.site(stmt, 'attribute store .%s' % t.attr, t.value)
            elif isinstance(t, (ast.Tuple, ast.List)):
                for e in t.elts:
                    self.store_target(stmt, e)

    mods = {'asn1tools/codecs/%s.py' % c for c in CODEC_MODULES + ['compiler']}
    ck = FrameChecker(repo, mods)
    names = ('compile_member', 'compile_type', 'set_compiled_restricted_to')
    obligations = discharged = 0
    violations, funcs = [], []
    for m in ck.prog.modules.values():
        if m.relpath not in mods:
            continue
        for c in m.classes.values():
            if c.name != 'Compiler':
                continue
            for n in names:
                f = c.methods.get(n)
                if f is None:
                    continue
                fa = Cow(ck, f).classify()
                fa.kinds['self'] = OWNED
                fa.check()
                k = len(fa.sites)
                ok = sum(1 for s in fa.sites if s['ok'])
                obligations += k
                discharged += ok
                funcs.append({'function': f.ident, 'source_sha256': f.sha, 'paths': 1, 'obligations': k, 'discharged': ok,
                              'outcomes': {}, 'seconds': 0.0, 'inlined_callees': []})
                for s in fa.sites:
                    if not s['ok']:
                        violations.append({'obligation': '%s/copy-before-write@%d' % (f.ident, s['line']),
                                           'function': f.ident, 'verdict': 'frame violation',
                                           'solver_output': '%s: %s on `%s`, which may be an object of the compiled-type cache '
                                                            '(no self.copy() on this path)' % (f.ident, s['what'], s['target']),
                                           'line': s['line'], 'inputs': None})
    # write-through setters: the specialisation functions above copy the *wrapper* (shallow); a setter of a type class
    # that forwards the write to a child object (self.inner.set_default(v)) must therefore first replace the child by a
    # copy of its own -- otherwise the write lands in an object shared with every other user of the compiled type
    SPECIALISING = ('set_default', 'set_size_range', 'set_restricted_to_range')
    for m in ck.prog.modules.values():
        if m.relpath not in mods:
            continue
        for c in m.classes.values():
            for f in c.methods.values():
                if f.name not in SPECIALISING:
                    continue
                k = ok = 0
                body = list(f.node.body)
                for i, st in enumerate(body):
                    for n in ast.walk(st):
                        if isinstance(n, ast.Call) and isinstance(n.func, ast.Attribute) and n.func.attr.startswith('set_') \
                                and isinstance(n.func.value, ast.Attribute) and isinstance(n.func.value.value, ast.Name) \
                                and n.func.value.value.id == 'self':
                            child = n.func.value.attr
                            k += 1
                            copied = any(isinstance(p_, ast.Assign) and len(p_.targets) == 1
                                         and ast.unparse(p_.targets[0]) == 'self.' + child
                                         and ast.unparse(p_.value) in ('copy(self.%s)' % child, 'copy.copy(self.%s)' % child,
                                                                       'deepcopy(self.%s)' % child)
                                         for p_ in body[:i])
                            if copied:
                                ok += 1
                            else:
                                violations.append({'obligation': '%s/copy-before-write-through(self.%s)@%d' % (f.ident, child, n.lineno),
                                                   'function': f.ident, 'verdict': 'frame violation',
                                                   'solver_output': '%s forwards the write to self.%s without first replacing it by a copy: '
                                                                    'the child is shared with other users of the compiled type' % (f.ident, child),
                                                   'line': n.lineno, 'inputs': None})
                if k:
                    obligations += k
                    discharged += ok
                    funcs.append({'function': f.ident, 'source_sha256': f.sha, 'paths': 1, 'obligations': k, 'discharged': ok,
                                  'outcomes': {}, 'seconds': 0.0, 'inlined_callees': []})
    undecided = []
    if obligations < 5:
        undecided.append({'function': 'pyvc-own(cow)', 'kind': 'vacuous', 'reason': 'fewer than 5 write sites found'})
    return {'name': 'pyvc-own(copy-before-write)', 'obligations': obligations, 'discharged': discharged,
            'violations': violations, 'functions': funcs, 'undecided': undecided,
            'coverage': {'functions': len(funcs), 'write_sites': obligations}}


# ------------------------------------------------------------------------------------------------------------
def cache_key_check(repo, tier, seed):
    """C17 (reduced): the cache key determines the result of the miss branch.  Data-flow obligations on the real
    AST of asn1tools/compiler.py::_compile_files_cache and compile_files:
      key-covers(p)      every parameter the miss branch passes to parse_files/compile_dict flows into `key`
      raw-contents       the file part of the key is exactly the bytes read from the file opened 'rb' (no transformation)
      injective-framing  every variable-length part appended to the key is preceded by its own length; the first part
                         (codec name) ranges over a prefix-free finite set read from the dispatch table
      same-arguments     the miss branch and compile_files use the parameters unmodified (no reordering / rewriting
                         between computing the key and compiling)
    """
    import ast
    from .program import Program
    prog = Program(repo)
    m = prog.module_by_relpath('asn1tools/compiler.py')
    obligations = []

    def ob(name, ok, why):
        obligations.append((name, ok, why))

    f = m.functions.get('_compile_files_cache')
    g = m.functions.get('compile_files')
    if f is None or g is None:
        return {'name': 'cache-key', 'obligations': 0, 'discharged': 0, 'violations': [], 'functions': [],
                'undecided': [{'function': 'asn1tools/compiler.py::_compile_files_cache', 'kind': 'shape', 'reason': 'function not found'}],
                'coverage': {}}
    params = [a.arg for a in f.node.args.args]
    # --- taint of `key`
    taint = {'key': set()}
    var_src = {}           # local name -> set of params it depends on
    read_names = {}        # local name -> ast expr it was assigned from (for raw-contents)

    def deps(e):
        out = set()
        for n in ast.walk(e):
            if isinstance(n, ast.Name):
                if n.id in params:
                    out.add(n.id)
                out |= var_src.get(n.id, set())
        return out

    appended = []          # (expr, lineno) in order
    file_handles = {}      # handle name -> (filename expr, mode)
    reassigned = {}
    for node in ast.walk(f.node):
        if isinstance(node, ast.With):
            for it in node.items:
                c = it.context_expr
                if isinstance(c, ast.Call) and isinstance(c.func, ast.Name) and c.func.id == 'open' and it.optional_vars is not None:
                    mode = c.args[1].value if len(c.args) > 1 and isinstance(c.args[1], ast.Constant) else None
                    file_handles[it.optional_vars.id] = (c.args[0], mode)
                    var_src[it.optional_vars.id] = deps(c.args[0])
    for _ in range(4):
        for hname, (fexpr, _mode) in file_handles.items():
            var_src[hname] = var_src.get(hname, set()) | deps(fexpr)
        for node in ast.walk(f.node):
            if isinstance(node, ast.For) and isinstance(node.target, ast.Name):
                var_src[node.target.id] = var_src.get(node.target.id, set()) | deps(node.iter)
            if isinstance(node, ast.Assign) and isinstance(node.targets[0], ast.Name):
                nm = node.targets[0].id
                var_src[nm] = var_src.get(nm, set()) | deps(node.value)
                read_names[nm] = node.value
                if nm in params:
                    reassigned.setdefault(nm, []).append(node.value)
    for node in sorted([n for n in ast.walk(f.node) if isinstance(n, (ast.Assign, ast.Expr))], key=lambda n: n.lineno):
        if isinstance(node, ast.Assign) and isinstance(node.targets[0], ast.Name) and node.targets[0].id == 'key' \
                and isinstance(node.value, ast.List):
            for e in node.value.elts:
                appended.append((e, node.lineno))
        if isinstance(node, ast.Expr) and isinstance(node.value, ast.Call) and isinstance(node.value.func, ast.Attribute) \
                and node.value.func.attr == 'append' and isinstance(node.value.func.value, ast.Name) \
                and node.value.func.value.id == 'key':
            appended.append((node.value.args[0], node.lineno))
    key_deps = set()
    for e, _ in appended:
        key_deps |= deps(e)
    # --- the miss branch
    miss_calls = [n for n in ast.walk(f.node) if isinstance(n, ast.Call) and isinstance(n.func, ast.Name)
                  and n.func.id in ('compile_dict', 'parse_files')]
    used = set()
    for c in miss_calls:
        for a in list(c.args) + [k.value for k in c.keywords]:
            if isinstance(a, ast.Name) and a.id in params:
                used.add(a.id)
            elif not (isinstance(a, ast.Call)):
                for n in ast.walk(a):
                    if isinstance(n, ast.Name) and n.id in params:
                        used.add(n.id)
    if not miss_calls:
        ob('miss-branch', False, 'no compile_dict(parse_files(..)) call found')
    def inj_occurs(e, p, depth=0):
        """p reaches e through value-preserving constructors only: itself, tuple/list literals, repr()/str(), .encode(),
        concatenation, a local variable assigned once from such an expression"""
        if depth > 6:
            return False
        if isinstance(e, ast.Name):
            if e.id == p and p not in reassigned:
                return True
            if e.id in read_names and e.id not in params:
                return inj_occurs(read_names[e.id], p, depth + 1)
            return False
        if isinstance(e, (ast.Tuple, ast.List)):
            return any(inj_occurs(x, p, depth + 1) for x in e.elts)
        if isinstance(e, ast.Call) and isinstance(e.func, ast.Name) and e.func.id in ('repr', 'str') and len(e.args) == 1:
            return inj_occurs(e.args[0], p, depth + 1)
        if isinstance(e, ast.Call) and isinstance(e.func, ast.Attribute) and e.func.attr == 'encode':
            return inj_occurs(e.func.value, p, depth + 1)
        if isinstance(e, ast.BinOp) and isinstance(e.op, ast.Add):
            return inj_occurs(e.left, p, depth + 1) or inj_occurs(e.right, p, depth + 1)
        return False

    via_files = set()
    for hname, (fexpr, _mode) in file_handles.items():
        via_files |= deps(fexpr)
    for p in sorted(used):
        ob('key-covers(%s)' % p, p in key_deps, 'parameter %s is used to compile but does not flow into the cache key' % p)
        if p in key_deps and p not in via_files:
            ob('key-injective(%s)' % p, any(inj_occurs(e, p) for e, _ in appended),
               'parameter %s enters the cache key only through a transformation that is not value preserving '
               '(allowed: the value itself, tuple/list, repr/str, encode, concatenation)' % p)
    # --- raw contents
    raw_ok = False
    for e, _ in appended:
        src = e
        if isinstance(e, ast.Name) and e.id in read_names:
            src = read_names[e.id]
        if isinstance(src, ast.Call) and isinstance(src.func, ast.Attribute) and src.func.attr == 'read' \
                and isinstance(src.func.value, ast.Name) and src.func.value.id in file_handles and not src.args:
            fn_expr, mode = file_handles[src.func.value.id]
            raw_ok = (mode == 'rb')
    ob('raw-contents', raw_ok, "the key does not contain the untransformed bytes of each file (fin.read() of open(filename, 'rb'))")
    # --- injective framing
    framing_ok = True
    why = ''
    for i, (e, ln) in enumerate(appended):
        if i == 0:
            continue               # codec name: prefix-free set, checked below
        if isinstance(e, ast.Constant):
            continue
        txt = ast.unparse(e)
        is_len_prefix = 'len(' in txt and (txt.rstrip().endswith("b':'") or "+ b':'" in txt)
        if is_len_prefix:
            continue
        prev = ast.unparse(appended[i - 1][0]) if i > 0 else ''
        if not ('len(%s)' % txt in prev and "b':'" in prev):
            framing_ok = False
            why = 'key part `%s` (line %d) is not preceded by its length' % (txt[:60], ln)
    ob('injective-framing', framing_ok and len(appended) >= 3, why or 'too few key parts')
    # codec names prefix-free: read the dispatch table of compile_dict
    codecs = []
    cd = m.functions.get('compile_dict')
    for n in ast.walk(cd.node) if cd else []:
        if isinstance(n, ast.Dict):
            ks = [k.value for k in n.keys if isinstance(k, ast.Constant) and isinstance(k.value, str)]
            if len(ks) >= 4:
                codecs = ks
    pf = bool(codecs) and not any(a != b and b.startswith(a) for a in codecs for b in codecs)
    ob('codec-names-prefix-free', pf, 'codec table %r is not prefix free / not found' % (codecs,))
    # --- same arguments
    ok_same = True
    why = ''
    for p, vals in reassigned.items():
        for v in vals:
            if not (isinstance(v, ast.List) and len(v.elts) == 1 and isinstance(v.elts[0], ast.Name) and v.elts[0].id == p):
                ok_same = False
                why = 'parameter %s is rewritten (%s) between computing the key and compiling' % (p, ast.unparse(v)[:60])
    # in compile_files: the cached call receives the parameters themselves and none is reassigned
    gparams = [a.arg for a in g.node.args.args]
    for n in ast.walk(g.node):
        if isinstance(n, ast.Assign):
            for t in n.targets:
                if isinstance(t, ast.Name) and t.id in gparams:
                    ok_same = False
                    why = 'compile_files rewrites its parameter %s before compiling (cached and uncached paths differ)' % t.id
        if isinstance(n, ast.Call) and isinstance(n.func, ast.Name) and n.func.id == '_compile_files_cache':
            for a in n.args:
                if not (isinstance(a, ast.Name) and a.id in gparams):
                    ok_same = False
                    why = 'compile_files passes a transformed argument to the cached path: %s' % ast.unparse(a)[:60]
    ob('same-arguments', ok_same, why)
    # --- what a hit returns is what the miss stored: the cache pickles the Specification; the structural-copy guarantee of
    # pickle (assumed for plain objects) holds only while no class of the library customises pickling
    hooks = ('__getstate__', '__setstate__', '__reduce__', '__reduce_ex__', '__getnewargs__', '__getnewargs_ex__')
    custom = []
    ncls = 0
    for m2 in prog.modules.values():
        for c2 in m2.classes.values():
            ncls += 1
            for h in hooks:
                if h in c2.methods:
                    custom.append('%s::%s.%s' % (m2.relpath, c2.name, h))
    ob('stored-equals-returned(default pickling of %d classes)' % ncls, not custom and ncls > 50,
       'custom pickling hooks change what a cache hit returns: %s' % ', '.join(custom))
    viol = []
    for name, ok, why in obligations:
        if not ok:
            viol.append({'obligation': 'asn1tools/compiler.py::_compile_files_cache/%s' % name,
                         'function': 'asn1tools/compiler.py::_compile_files_cache', 'verdict': 'data-flow obligation failed',
                         'solver_output': why, 'inputs': None})
    return {'name': 'cache-key data-flow', 'obligations': len(obligations), 'discharged': sum(1 for o in obligations if o[1]),
            'violations': viol, 'undecided': [] if len(obligations) >= 6 else [
                {'function': 'asn1tools/compiler.py::_compile_files_cache', 'kind': 'vacuous', 'reason': 'too few obligations generated'}],
            'functions': [{'function': f.ident, 'source_sha256': f.sha, 'paths': 1, 'obligations': len(obligations),
                           'discharged': sum(1 for o in obligations if o[1]), 'outcomes': {}, 'seconds': 0.0, 'inlined_callees': []},
                          {'function': g.ident, 'source_sha256': g.sha, 'paths': 1, 'obligations': 0, 'discharged': 0,
                           'outcomes': {}, 'seconds': 0.0, 'inlined_callees': []}],
            'coverage': {'obligations': [o[0] for o in obligations], 'codec_names': codecs}}


# ------------------------------------------------------------------------------------------------------------
COMMENTS_DRIVER = r'''
import itertools, json, sys
sys.path.insert(0, sys.argv[1]); sys.path.insert(0, sys.argv[2])
from asn1tools.parser import ignore_comments
from spec.x680 import blank_comments
maxlen = int(sys.argv[3]); alphabet = sys.argv[4]
tot = 0; nontrivial = 0; bad = []
for L in range(0, maxlen + 1):
    for t in itertools.product(alphabet, repeat=L):
        s = ''.join(t); tot += 1
        try:
            r = ignore_comments(s)
        except Exception as e:
            r = None if type(e).__name__ == 'ParseSyntaxException' else 'EXC:' + type(e).__name__
        e = blank_comments(s)
        if e != s:
            nontrivial += 1
        if r != e and len(bad) < 5:
            bad.append({'input': s, 'observed': r, 'expected': e})
print(json.dumps({'total': tot, 'nontrivial': nontrivial, 'bad': bad}))
'''


def comments_check(repo, tier, seed):
    """C14 (reduced, BOUNDED): the comment-blanking pre-pass equals the reference automaton spec/x680.py on every
    string up to a length bound over the alphabet of comment-relevant characters (exhaustive below the bound; never
    counted as proved), plus data-flow obligations on parse_string: the text reaches ignore_comments unmodified and its
    result reaches the grammar unmodified (so the reported line is the line of the original text)."""
    import ast, subprocess, json
    from .program import Program
    from .check import NATIVE_PY, VERIF_ROOT
    maxlen = 7 if tier == 'quick' else 9
    alphabet = '-/*\n"a'
    p = subprocess.run([NATIVE_PY, '-c', COMMENTS_DRIVER, repo, VERIF_ROOT, str(maxlen), alphabet],
                       capture_output=True, text=True, timeout=3000)
    viol, undec = [], []
    res = {'total': 0, 'nontrivial': 0, 'bad': []}
    if p.returncode != 0:
        undec.append({'function': 'asn1tools/parser.py::ignore_comments', 'kind': 'crash', 'reason': p.stderr[-500:]})
    else:
        res = json.loads(p.stdout)
        for b in res['bad']:
            viol.append({'obligation': 'asn1tools/parser.py::ignore_comments/equals-reference(bounded)',
                         'function': 'asn1tools/parser.py::ignore_comments', 'verdict': 'bounded check failed',
                         'solver_output': 'ignore_comments(%r) = %r, reference automaton gives %r' % (b['input'], b['observed'], b['expected']),
                         'inputs': {'string': b['input']}, 'confirmed': True})
            break
    # data-flow obligations on parse_string
    prog = Program(repo)
    m = prog.module_by_relpath('asn1tools/parser.py')
    f = m.functions.get('parse_string')
    obs = []
    if f is None:
        undec.append({'function': 'asn1tools/parser.py::parse_string', 'kind': 'shape', 'reason': 'not found'})
    else:
        assigns = [n for n in ast.walk(f.node) if isinstance(n, ast.Assign)]
        string_assigns = [a for a in assigns if any(isinstance(t, ast.Name) and t.id == 'string' for t in a.targets)]
        ok1 = len(string_assigns) == 1 and ast.unparse(string_assigns[0].value) == 'ignore_comments(string)'
        obs.append(('parse_string/text-reaches-prepass-unmodified', ok1,
                    'the parameter `string` is rewritten other than by string = ignore_comments(string): %s' %
                    [ast.unparse(a)[:60] for a in string_assigns]))
        calls = [n for n in ast.walk(f.node) if isinstance(n, ast.Call) and isinstance(n.func, ast.Attribute)
                 and n.func.attr == 'parseString']
        ok2 = len(calls) == 1 and len(calls[0].args) >= 1 and isinstance(calls[0].args[0], ast.Name) and calls[0].args[0].id == 'string'
        obs.append(('parse_string/prepass-result-reaches-grammar-unmodified', ok2, 'grammar.parseString is not applied to the blanked text itself'))
        ok3 = any(isinstance(n, ast.Attribute) and n.attr == 'lineno' for n in ast.walk(f.node))
        obs.append(('parse_string/error-reports-lineno', ok3, 'the ParseError message no longer uses the exception lineno'))
        for name, ok, why in obs:
            if not ok:
                viol.append({'obligation': 'asn1tools/parser.py::' + name, 'function': 'asn1tools/parser.py::parse_string',
                             'verdict': 'data-flow obligation failed', 'solver_output': why, 'inputs': None})
    return {'name': 'comment pre-pass (bounded) + parse_string data-flow', 'obligations': len(obs),
            'discharged': sum(1 for o in obs if o[1]), 'violations': viol, 'undecided': undec,
            'functions': [{'function': 'asn1tools/parser.py::parse_string', 'source_sha256': f.sha if f else None, 'paths': 1,
                           'obligations': len(obs), 'discharged': sum(1 for o in obs if o[1]), 'outcomes': {}, 'seconds': 0.0,
                           'inlined_callees': []}],
            'coverage': {'bounded': {'function': 'asn1tools/parser.py::ignore_comments', 'strings_enumerated': res['total'],
                                     'strings_with_a_comment_or_change': res['nontrivial'], 'max_length': maxlen,
                                     'alphabet': alphabet, 'exhaustive_below_bound': True, 'counted_as_proved': False}}}


# ------------------------------------------------------------------------------------------------------------
def module_threading_check(repo, tier, seed):
    """C19/C13 (reduced): reference congruence needs every part of a looked-up descriptor to be interpreted in the module
    it was found in.  Data-flow obligations over codecs/compiler.py::Compiler: for every
        D, M = self.lookup_*(name, M0)
    each later call in the same function that passes (something derived from) D together with a module argument must pass
    M -- the module returned with D -- and M must not be discarded when D is dereferenced again."""
    import ast
    from .program import Program
    prog = Program(repo)
    m = prog.module_by_relpath('asn1tools/codecs/compiler.py')
    cls = m.classes['Compiler']
    obs, viol, funcs = [], [], []
    for f in cls.methods.values():
        pairs = []           # (D name, M name, lineno)
        for n in ast.walk(f.node):
            if isinstance(n, ast.Assign) and isinstance(n.targets[0], ast.Tuple) and len(n.targets[0].elts) == 2 \
                    and isinstance(n.value, ast.Call) and isinstance(n.value.func, ast.Attribute) \
                    and n.value.func.attr.startswith('lookup_') and all(isinstance(e, ast.Name) for e in n.targets[0].elts):
                d, mm = n.targets[0].elts[0].id, n.targets[0].elts[1].id
                m0 = [a.id for a in n.value.args if isinstance(a, ast.Name) and 'module' in a.id]
                pairs.append((d, mm, n.lineno, m0[0] if m0 else None, n))
        if not pairs:
            continue
        derived = {}
        for d, mm, ln, m0, node in pairs:
            derived.setdefault(d, {d})
        for _ in range(3):
            for n in ast.walk(f.node):
                if isinstance(n, ast.Assign) and isinstance(n.targets[0], ast.Name):
                    for d in derived:
                        if any(isinstance(x, ast.Name) and x.id in derived[d] for x in ast.walk(n.value)):
                            derived[d].add(n.targets[0].id)
        nf = 0
        for d, mm, ln, m0, node in pairs:
            for c in ast.walk(f.node):
                if not isinstance(c, ast.Call) or c is node.value:
                    continue
                if isinstance(c.func, ast.Attribute) and c.func.attr == 'format':
                    continue             # error message text
                args = list(c.args) + [k.value for k in c.keywords]
                uses_d = any(isinstance(x, ast.Name) and x.id in derived[d] for a in args for x in ast.walk(a))
                mod_args = [a.id for a in args if isinstance(a, ast.Name) and 'module' in a.id]
                if uses_d and mod_args:
                    ok = all(a == mm for a in mod_args) and mm != '_'
                    name = '%s/module-threading@%d' % (f.ident, c.lineno)
                    obs.append((name, ok))
                    nf += 1
                    if not ok:
                        viol.append({'obligation': name, 'function': f.ident, 'verdict': 'data-flow obligation failed',
                                     'solver_output': 'line %d: `%s` passes module %s with data of descriptor `%s`, which was found in module `%s` '
                                                      '(returned by the lookup at line %d)' % (c.lineno, ast.unparse(c)[:80], mod_args, d, mm, ln),
                                     'inputs': None})
        funcs.append({'function': f.ident, 'source_sha256': f.sha, 'paths': 1, 'obligations': nf,
                      'discharged': sum(1 for o in obs[-nf:] if o[1]) if nf else 0, 'outcomes': {}, 'seconds': 0.0, 'inlined_callees': []})
    return {'name': 'module threading data-flow', 'obligations': len(obs), 'discharged': sum(1 for o in obs if o[1]),
            'violations': viol, 'functions': funcs,
            'undecided': [] if len(obs) >= 3 else [{'function': 'asn1tools/codecs/compiler.py::Compiler', 'kind': 'vacuous',
                                                    'reason': 'fewer than 3 lookup/use pairs found'}],
            'coverage': {'obligations': [o[0] for o in obs]}}


# ------------------------------------------------------------------------------------------------------------
def set_order_check(repo, tier, seed):
    """C03 (X.690 10.3): SET components are compiled in tag order.  Data-flow obligations on the real AST:
    every BER/DER Compiler.compile_implicit_type passes sort_by_tag=True in its 'SET' branch, and compile_members sorts
    with key=get_tag_no_encoding when the flag is set (get_tag_no_encoding itself is under an SMT contract)."""
    import ast
    from .program import Program
    prog = Program(repo)
    obs, viol, funcs = [], [], []
    for rel in ('asn1tools/codecs/ber.py', 'asn1tools/codecs/der.py'):
        m = prog.module_by_relpath(rel)
        c = m.classes.get('Compiler')
        f = c.methods.get('compile_implicit_type') if c else None
        if f is None:
            continue
        ok = False
        for n in ast.walk(f.node):
            if isinstance(n, ast.If) and isinstance(n.test, ast.Compare) and any(
                    isinstance(x, ast.Constant) and x.value == 'SET' for x in ast.walk(n.test)):
                for call in ast.walk(ast.Module(body=n.body, type_ignores=[])):
                    if isinstance(call, ast.Call) and isinstance(call.func, ast.Attribute) and call.func.attr == 'compile_members':
                        ok = any(k.arg == 'sort_by_tag' and isinstance(k.value, ast.Constant) and k.value.value is True
                                 for k in call.keywords)
        name = '%s/set-sorted-by-tag' % f.ident
        obs.append((name, ok))
        funcs.append({'function': f.ident, 'source_sha256': f.sha, 'paths': 1, 'obligations': 1, 'discharged': int(ok),
                      'outcomes': {}, 'seconds': 0.0, 'inlined_callees': []})
        if not ok:
            viol.append({'obligation': name, 'function': f.ident, 'verdict': 'data-flow obligation failed',
                         'solver_output': "the 'SET' branch of %s does not compile its members with sort_by_tag=True" % f.ident,
                         'inputs': None})
    m = prog.module_by_relpath('asn1tools/codecs/ber.py')
    f = m.classes['Compiler'].methods.get('compile_members')
    ok = False
    if f is not None:
        for n in ast.walk(f.node):
            if isinstance(n, ast.If) and isinstance(n.test, ast.Name) and n.test.id == 'sort_by_tag':
                txt = ast.unparse(n)
                ok = 'sorted(compiled_members, key=get_tag_no_encoding)' in txt
        name = '%s/sorts-by-tag-key' % f.ident
        obs.append((name, ok))
        if not ok:
            viol.append({'obligation': name, 'function': f.ident, 'verdict': 'data-flow obligation failed',
                         'solver_output': 'compile_members no longer sorts with key=get_tag_no_encoding under sort_by_tag', 'inputs': None})
    # X.690 11.6: DER SET OF -- the component encodings are emitted in ascending order: the method that der.SetOf
    # resolves encode_content to returns the join of sorted(L), where L collects one freshly encoded element per entry
    dm = prog.module_by_relpath('asn1tools/codecs/der.py')
    so = dm.classes.get('SetOf')
    f = prog.find_method(so, 'encode_content') if so is not None else None
    ok = False
    why = 'der.SetOf.encode_content not found'
    if f is not None:
        why = 'the returned value is not built from sorted(<list of per-element encodings>)'
        for r in ast.walk(f.node):
            if isinstance(r, ast.Return) and r.value is not None:
                srt = [c_ for c_ in ast.walk(r.value) if isinstance(c_, ast.Call) and isinstance(c_.func, ast.Name)
                       and c_.func.id == 'sorted' and len(c_.args) == 1 and isinstance(c_.args[0], ast.Name) and not c_.keywords]
                if not srt:
                    continue
                lst = srt[0].args[0].id
                for loop in ast.walk(f.node):
                    if isinstance(loop, ast.For) and isinstance(loop.target, ast.Name):
                        ent = loop.target.id
                        fresh = [a.targets[0].id for a in loop.body if isinstance(a, ast.Assign) and isinstance(a.targets[0], ast.Name)
                                 and ast.unparse(a.value) == 'bytearray()']
                        enc = [c_ for c_ in ast.walk(loop) if isinstance(c_, ast.Call) and ast.unparse(c_.func) == 'self.element_type.encode'
                               and len(c_.args) >= 2 and isinstance(c_.args[0], ast.Name) and c_.args[0].id == ent
                               and isinstance(c_.args[1], ast.Name) and c_.args[1].id in fresh]
                        app = [c_ for c_ in ast.walk(loop) if isinstance(c_, ast.Call) and ast.unparse(c_.func) == lst + '.append'
                               and len(c_.args) == 1 and isinstance(c_.args[0], ast.Name) and c_.args[0].id in fresh]
                        if enc and app and ast.unparse(loop.iter) == 'data':
                            ok = True
        name = '%s/set-of-sorted(der.SetOf)' % f.ident
        funcs.append({'function': f.ident, 'source_sha256': f.sha, 'paths': 1, 'obligations': 1, 'discharged': int(ok),
                      'outcomes': {}, 'seconds': 0.0, 'inlined_callees': []})
    else:
        name = 'asn1tools/codecs/der.py::SetOf.encode_content/set-of-sorted(der.SetOf)'
    obs.append((name, ok))
    if not ok:
        viol.append({'obligation': name, 'function': f.ident if f is not None else 'asn1tools/codecs/der.py::SetOf',
                     'verdict': 'data-flow obligation failed', 'solver_output': why, 'inputs': None})
    # X.690 11.2.2: DER BIT STRING with a named bit list -- the value that is encoded is the cleaned one: under
    # `if self.has_named_bits` the data is replaced by clean_bit_string_value(data, True) / rstrip_bit_string_zeros(..)
    bs = dm.classes.get('BitString')
    f = prog.find_method(bs, 'encode') if bs is not None else None
    ok = False
    if f is not None:
        for n in ast.walk(f.node):
            if isinstance(n, ast.If) and ast.unparse(n.test) == 'self.has_named_bits':
                for a in n.body:
                    if isinstance(a, ast.Assign) and isinstance(a.value, ast.Call) and isinstance(a.value.func, ast.Name) \
                            and a.value.func.id in ('clean_bit_string_value', 'rstrip_bit_string_zeros') \
                            and isinstance(a.targets[0], (ast.Name, ast.Tuple)) \
                            and any(isinstance(x, ast.Name) and x.id == 'data' for x in ast.walk(a.targets[0])) \
                            and any(isinstance(x, ast.Name) and x.id == 'data' for x in ast.walk(a.value)):
                        ok = True
        name = '%s/named-bits-trailing-zeros-removed(der.BitString)' % f.ident
        funcs.append({'function': f.ident, 'source_sha256': f.sha, 'paths': 1, 'obligations': 1, 'discharged': int(ok),
                      'outcomes': {}, 'seconds': 0.0, 'inlined_callees': []})
    else:
        name = 'asn1tools/codecs/der.py::BitString.encode/named-bits-trailing-zeros-removed(der.BitString)'
    obs.append((name, ok))
    if not ok:
        viol.append({'obligation': name, 'function': f.ident if f is not None else 'asn1tools/codecs/der.py::BitString',
                     'verdict': 'data-flow obligation failed',
                     'solver_output': 'der.BitString.encode does not replace the value by its cleaned form (trailing zero bits removed) '
                                      'when the type has a named bit list', 'inputs': None})
    return {'name': 'SET ordering data-flow', 'obligations': len(obs), 'discharged': sum(1 for o in obs if o[1]), 'violations': viol,
            'functions': funcs, 'undecided': [] if len(obs) == 5 else [{'function': 'ber/der Compiler', 'kind': 'shape',
                                                                        'reason': 'compile_implicit_type / compile_members not found'}],
            'coverage': {'obligations': [o[0] for o in obs]}}


# ------------------------------------------------------------------------------------------------------------
def presence_guard_check(repo, tier, seed):
    """C07 re-synchronisation: in the addition-decoding loops of PER and OER every read from the decoder is control
    dependent on the presence bit of that addition (an absent addition consumes nothing, whether or not this version
    knows it).  Control-dependence obligations on the real AST of MembersType.decode_additions."""
    import ast
    from .program import Program
    prog = Program(repo)
    obs, viol, funcs = [], [], []

    def mentions(e, name):
        return any(isinstance(n, ast.Name) and n.id == name for n in ast.walk(e))

    def decoder_calls(stmts):
        out = []
        for st in stmts:
            for n in ast.walk(st):
                if isinstance(n, ast.Call):
                    for a in [n.func] + list(n.args):
                        if mentions(a, 'decoder'):
                            out.append(n)
                            break
        return out

    def ends_with_continue(body):
        return bool(body) and isinstance(body[-1], ast.Continue)

    for rel in ('asn1tools/codecs/per.py', 'asn1tools/codecs/oer.py'):
        m = prog.module_by_relpath(rel)
        f = m.classes['MembersType'].methods.get('decode_additions')
        if f is None:
            continue
        loops = [n for n in ast.walk(f.node) if isinstance(n, ast.For)]
        nf = 0
        for lp in loops:
            guarded = False
            for st in lp.body:
                if isinstance(st, ast.If) and mentions(st.test, 'presence_bits'):
                    if ends_with_continue(st.body) and not decoder_calls(st.body):
                        guarded = True          # `if not present: continue`
                        continue
                    for c in decoder_calls(st.orelse):
                        obs.append(('%s/presence-guard@%d' % (f.ident, c.lineno), False, ast.unparse(c)[:70]))
                        nf += 1
                    for c in decoder_calls(st.body):
                        obs.append(('%s/presence-guard@%d' % (f.ident, c.lineno), True, ''))
                        nf += 1
                    continue
                for c in decoder_calls([st]):
                    obs.append(('%s/presence-guard@%d' % (f.ident, c.lineno), guarded, ast.unparse(c)[:70]))
                    nf += 1
        funcs.append({'function': f.ident, 'source_sha256': f.sha, 'paths': 1, 'obligations': nf,
                      'discharged': sum(1 for o in obs[-nf:] if o[1]) if nf else 0, 'outcomes': {}, 'seconds': 0.0, 'inlined_callees': []})
    for name, ok, txt in obs:
        if not ok:
            viol.append({'obligation': name, 'function': name.split('/presence')[0], 'verdict': 'control-dependence obligation failed',
                         'solver_output': 'decoder read `%s` is not guarded by the presence bit of the addition: an absent addition '
                                          'would consume input' % txt, 'inputs': None})
    return {'name': 'presence-guard (control dependence)', 'obligations': len(obs), 'discharged': sum(1 for o in obs if o[1]),
            'violations': viol, 'functions': funcs,
            'undecided': [] if len(obs) >= 4 else [{'function': 'per/oer MembersType.decode_additions', 'kind': 'vacuous',
                                                    'reason': 'fewer than 4 decoder reads found in the addition loops'}],
            'coverage': {'obligations': [o[0] for o in obs]}}


# ------------------------------------------------------------------------------------------------------------
def preprocess_coverage_check(repo, tier, seed):
    """C13: every type of every module goes through every in-place pre-processing pass *in the same compile*
    (otherwise a second compile of the same dictionary sees a differently processed dictionary).  Data-flow
    obligations on codecs/compiler.py::Compiler.pre_process: the descriptor list handed to the passes is
    module['types'].values() itself (no filter), and each pass is called with it."""
    import ast
    from .program import Program
    prog = Program(repo)
    m = prog.module_by_relpath('asn1tools/codecs/compiler.py')
    f = m.classes['Compiler'].methods.get('pre_process')
    obs, viol = [], []
    if f is None:
        return {'name': 'pre_process coverage', 'obligations': 0, 'discharged': 0, 'violations': [], 'functions': [],
                'undecided': [{'function': 'Compiler.pre_process', 'kind': 'shape', 'reason': 'not found'}], 'coverage': {}}
    assigns = {}
    for n in ast.walk(f.node):
        if isinstance(n, ast.Assign) and isinstance(n.targets[0], ast.Name):
            assigns.setdefault(n.targets[0].id, []).append(n.value)
    td = assigns.get('type_descriptors', [])
    ok = len(td) == 1 and ast.unparse(td[0]) == 'types.values()' and \
        any(ast.unparse(v) == "module['types']" for v in assigns.get('types', []))
    obs.append(('all-types-reach-the-passes', ok, "type_descriptors is not module['types'].values() itself: %s" %
                [ast.unparse(v)[:70] for v in td]))
    for pass_name in ('pre_process_components_of', 'pre_process_extensibility_implied', 'pre_process_default_value'):
        calls = [c for c in ast.walk(f.node) if isinstance(c, ast.Call) and isinstance(c.func, ast.Attribute) and c.func.attr == pass_name]
        ok = len(calls) == 1 and any(isinstance(a, ast.Name) and a.id == 'type_descriptors' for a in calls[0].args)
        obs.append(('pass-%s-gets-all-types' % pass_name, ok, '%s is not called once with the full descriptor list' % pass_name))
    for name, ok, why in obs:
        if not ok:
            viol.append({'obligation': f.ident + '/' + name, 'function': f.ident, 'verdict': 'data-flow obligation failed',
                         'solver_output': why, 'inputs': None})
    return {'name': 'pre_process coverage', 'obligations': len(obs), 'discharged': sum(1 for o in obs if o[1]), 'violations': viol,
            'functions': [{'function': f.ident, 'source_sha256': f.sha, 'paths': 1, 'obligations': len(obs),
                           'discharged': sum(1 for o in obs if o[1]), 'outcomes': {}, 'seconds': 0.0, 'inlined_callees': []}],
            'undecided': [], 'coverage': {'obligations': [o[0] for o in obs]}}


def memo_key_check(repo, tier, seed):
    """C13/C19/C03 (compile-time determinism): a table used as a memo must be keyed by everything the memoised
    computation depends on.  For every store  self.T[K1]..[Kn] = E  (E contains a call) in a function that also tests or
    reads self.T (the memo pattern), every local name E depends on must be determined by the key names K1..Kn
    (data-flow closure over the function's assignments; `self` state is the compiler's own, fixed specification)."""
    import ast, builtins
    from .program import Program
    prog = Program(repo)
    obs, viol, funcs, scanned = [], [], [], 0
    setter_tables = set()       # (class name, attribute) of tables filled by  self.T[k..] = <parameter>
    for m in prog.modules.values():
        for c in m.classes.values():
            for f in c.methods.values():
                ps = {a.arg for a in f.node.args.args}
                for n in ast.walk(f.node):
                    if isinstance(n, ast.Assign) and len(n.targets) == 1 and isinstance(n.targets[0], ast.Subscript) \
                            and isinstance(n.value, ast.Name) and n.value.id in ps:
                        b = n.targets[0]
                        while isinstance(b, ast.Subscript):
                            b = b.value
                        if isinstance(b, ast.Attribute) and isinstance(b.value, ast.Name) and b.value.id == 'self':
                            setter_tables.add((c.name, b.attr))
    for m in prog.modules.values():
        # scope: the parse / compile pipeline and the codecs (not the C / Rust source generators)
        if m.relpath.startswith('asn1tools/source/'):
            continue
        fl = list(m.functions.values())
        for c in m.classes.values():
            fl.extend(c.methods.values())
        for f in fl:
            scanned += 1
            params_all = [a_.arg for a_ in f.node.args.args]
            local_assigned = set()
            for a_ in ast.walk(f.node):
                tg = []
                if isinstance(a_, ast.Assign):
                    tg = a_.targets
                elif isinstance(a_, (ast.For, ast.comprehension)):
                    tg = [a_.target]
                elif isinstance(a_, ast.With):
                    tg = [i_.optional_vars for i_ in a_.items if i_.optional_vars is not None]
                for t in tg:
                    for x in ast.walk(t):
                        if isinstance(x, ast.Name) and isinstance(x.ctx, ast.Store):
                            local_assigned.add(x.id)
            local_src = {}
            for a_ in ast.walk(f.node):
                if isinstance(a_, ast.Assign) and len(a_.targets) == 1 and isinstance(a_.targets[0], ast.Name):
                    local_src.setdefault(a_.targets[0].id, []).append(a_.value)

            def param_deps(e, seen=()):
                out = set()
                for x in ast.walk(e):
                    if isinstance(x, ast.Name):
                        if x.id in params_all:
                            out.add(x.id)
                        elif x.id in local_src and x.id not in seen:
                            for v in local_src[x.id]:
                                out |= param_deps(v, seen + (x.id,))
                return out

            def key_params(e, seen=()):
                """parameters that enter a key expression value-preservingly (itself, tuple/list, a local bound to such)"""
                if isinstance(e, ast.Name):
                    if e.id in params_all:
                        return {e.id}
                    if e.id in local_src and e.id not in seen and len(local_src[e.id]) == 1:
                        return key_params(local_src[e.id][0], seen + (e.id,))
                    return set()
                if isinstance(e, (ast.Tuple, ast.List)):
                    out = set()
                    for x in e.elts:
                        out |= key_params(x, seen)
                    return out
                return set()

            nf = 0
            for n in ast.walk(f.node):
                if not (isinstance(n, ast.Assign) and len(n.targets) == 1 and isinstance(n.targets[0], ast.Subscript)):
                    continue
                keys, b = [], n.targets[0]
                while isinstance(b, ast.Subscript):
                    keys.append(b.slice)
                    b = b.value
                root = b
                while isinstance(root, ast.Attribute):
                    root = root.value
                if not isinstance(root, ast.Name) or (root.id in local_assigned) or (root.id in params_all and root.id != 'self'):
                    continue            # a local container or a caller's object: not a table that outlives the call
                if isinstance(b, ast.Name) and b.id == 'self':
                    continue
                table = ast.unparse(b)
                # the stored value is computed here (contains a call, directly or through locals)
                val = n.value
                computed = any(isinstance(x, ast.Call) for x in ast.walk(val)) or \
                    (isinstance(val, ast.Name) and val.id in local_src and any(
                        any(isinstance(x, ast.Call) for x in ast.walk(v)) for v in local_src[val.id]))
                if not computed:
                    continue
                # memo pattern: the same table is tested / read elsewhere in the function
                reads = [x for x in ast.walk(f.node) if isinstance(x, ast.Compare) and any(isinstance(o, (ast.In, ast.NotIn)) for o in x.ops)
                         and any(ast.unparse(c_) == table or ast.unparse(c_).startswith(table + '[') for c_ in x.comparators)]
                reads += [x for x in ast.walk(f.node) if isinstance(x, ast.Subscript) and isinstance(x.ctx, ast.Load)
                          and ast.unparse(x).startswith(table + '[')]
                if not reads:
                    continue
                kp = set()
                for k in keys:
                    kp |= key_params(k)
                deps = param_deps(val) - {'self'}
                missing = sorted(deps - kp)
                name = '%s/memo-key-covers-inputs(%s)@%d' % (f.ident, table, n.lineno)
                ok = not missing
                obs.append((name, ok))
                nf += 1
                if not ok:
                    viol.append({'obligation': name, 'function': f.ident, 'verdict': 'data-flow obligation failed',
                                 'solver_output': 'line %d: `%s` memoises a result that depends on parameter(s) %s, but the key is built from %s only'
                                                  % (n.lineno, ast.unparse(n)[:100], missing, sorted(kp) or 'derived values'),
                                 'inputs': None})
            # setter / getter of a keyed table: every parameter is part of the key
            #   def set_x(self, a, b, v): self.T[a][b] = v          def get_x(self, a, b): return self.T[a][b]
            params_ = [a.arg for a in f.node.args.args if a.arg != 'self']
            for n in ast.walk(f.node):
                tgt = None
                val = None
                if isinstance(n, ast.Assign) and len(n.targets) == 1 and isinstance(n.targets[0], ast.Subscript) \
                        and isinstance(n.value, ast.Name) and n.value.id in params_:
                    tgt, val = n.targets[0], n.value.id
                elif isinstance(n, ast.Return) and isinstance(n.value, ast.Subscript):
                    tgt = n.value
                if tgt is None:
                    continue
                keys, b = [], tgt
                while isinstance(b, ast.Subscript):
                    keys.append(b.slice)
                    b = b.value
                if not (isinstance(b, ast.Attribute) and isinstance(b.value, ast.Name) and b.value.id == 'self'):
                    continue
                if not keys or not all(isinstance(k, (ast.Name, ast.Tuple)) for k in keys):
                    continue
                keyvars = {x.id for k in keys for x in ast.walk(k) if isinstance(x, ast.Name)}
                if not keyvars or not keyvars <= set(params_):
                    continue
                if (f.cls.name if getattr(f, 'cls', None) is not None else None, b.attr) not in setter_tables:
                    continue            # only tables that are filled by a keyed setter (memo tables), not static maps
                missing = sorted(set(params_) - keyvars - ({val} if val else set()))
                name = '%s/table-key-uses-all-parameters(self.%s)@%d' % (f.ident, b.attr, n.lineno)
                ok = not missing
                obs.append((name, ok))
                nf += 1
                if not ok:
                    viol.append({'obligation': name, 'function': f.ident, 'verdict': 'data-flow obligation failed',
                                 'solver_output': 'line %d: `%s` keys self.%s by %s but ignores the parameter(s) %s' % (
                                     n.lineno, ast.unparse(n)[:90], b.attr, sorted(keyvars), missing), 'inputs': None})
            if nf:
                funcs.append({'function': f.ident, 'source_sha256': f.sha, 'paths': 1, 'obligations': nf,
                              'discharged': sum(1 for o in obs[-nf:] if o[1]), 'outcomes': {}, 'seconds': 0.0, 'inlined_callees': []})
    return {'name': 'memo-key data-flow', 'obligations': len(obs), 'discharged': sum(1 for o in obs if o[1]),
            'violations': viol, 'functions': funcs,
            'undecided': [] if scanned >= 100 else [{'function': 'asn1tools', 'kind': 'vacuous', 'reason': 'fewer than 100 functions scanned'}],
            'coverage': {'obligations': [o[0] for o in obs], 'functions_scanned': scanned}}


def preprocess_idempotence_check(repo, tier, seed):
    """C13 / C19 (data-flow obligations on codecs/compiler.py::Compiler.pre_process_*):
      guarded-rewrite      a pass that overwrites a field of the *input dictionary* with a value computed from that same
                           field (X[k] = f(.. X[k] ..)) does so only under a test of the old value (or after an early
                           "already processed" return), so that running the pass again leaves the converted value alone
                           -- the compile of an already compiled dictionary sees the same dictionary (C13)
      decide-on-resolved   where a pass resolves a member through type references (R = self.resolve_type_descriptor(M, ..)),
                           every decision on the kind of type compares R['type'], never M['type'], so the result does not
                           depend on whether the type is written inline or through a reference (C19)"""
    import ast
    from .program import Program
    prog = Program(repo)
    m = prog.module_by_relpath('asn1tools/codecs/compiler.py')
    cls = m.classes['Compiler']
    obs, viol, funcs = [], [], []
    BUILTIN_TYPES = {'BIT STRING', 'OCTET STRING', 'ENUMERATED', 'INTEGER', 'SEQUENCE', 'SET', 'CHOICE', 'SEQUENCE OF', 'SET OF',
                     'BOOLEAN', 'REAL', 'NULL', 'OBJECT IDENTIFIER'}
    for f in cls.methods.values():
        if not f.name.startswith('pre_process'):
            continue
        nf = 0
        parents = {}
        for n in ast.walk(f.node):
            for ch in ast.iter_child_nodes(n):
                parents[ch] = n
        # aliases: v = X[k]
        alias = {}
        for n in ast.walk(f.node):
            if isinstance(n, ast.Assign) and len(n.targets) == 1 and isinstance(n.targets[0], ast.Name) \
                    and isinstance(n.value, ast.Subscript):
                alias[n.targets[0].id] = ast.unparse(n.value)
        early_returns = []      # tests of `if T: return` at function level
        for st in f.node.body:
            if isinstance(st, ast.If) and any(isinstance(x, ast.Return) for x in st.body):
                early_returns.append(st.test)
        for n in ast.walk(f.node):
            if not (isinstance(n, ast.Assign) and len(n.targets) == 1 and isinstance(n.targets[0], ast.Subscript)):
                continue
            tgt = ast.unparse(n.targets[0])
            base = n.targets[0].value
            if not isinstance(base, ast.Name) or base.id == 'self':
                continue
            reads_self = any(isinstance(x, ast.Subscript) and ast.unparse(x) == tgt for x in ast.walk(n.value)) or \
                any(isinstance(x, ast.Name) and alias.get(x.id) == tgt for x in ast.walk(n.value))
            if not reads_self:
                continue
            # a rewrite that merely stores what another pre_process_* pass returned is that pass's responsibility
            # (structural passes consume their own markers: COMPONENTS OF entries, parameterized templates)
            def delegated(e):
                if isinstance(e, ast.Call) and isinstance(e.func, ast.Attribute) and isinstance(e.func.value, ast.Name) \
                        and e.func.value.id == 'self' and e.func.attr.startswith('pre_process'):
                    return True
                if isinstance(e, ast.Name):
                    srcs = [a.value for a in ast.walk(f.node) if isinstance(a, ast.Assign) and len(a.targets) == 1
                            and isinstance(a.targets[0], ast.Name) and a.targets[0].id == e.id]
                    return any(delegated(x) for x in srcs if not isinstance(x, ast.Name))
                return False
            if delegated(n.value):
                continue
            # control dependence: some enclosing if/loop-if test (or an early return) mentions the old value
            guarded = False
            p = parents.get(n)
            while p is not None and p is not f.node:
                if isinstance(p, ast.If):
                    t = p.test
                    if any((isinstance(x, ast.Subscript) and ast.unparse(x) == tgt) or
                           (isinstance(x, ast.Name) and alias.get(x.id) == tgt) for x in ast.walk(t)):
                        guarded = True
                p = parents.get(p)
            for t in early_returns:
                if any((isinstance(x, ast.Subscript) and ast.unparse(x) == tgt) or
                       (isinstance(x, ast.Name) and alias.get(x.id) == tgt) for x in ast.walk(t)):
                    guarded = True
            name = '%s/guarded-rewrite(%s)@%d' % (f.ident, tgt, n.lineno)
            obs.append((name, guarded))
            nf += 1
            if not guarded:
                viol.append({'obligation': name, 'function': f.ident, 'verdict': 'data-flow obligation failed',
                             'solver_output': 'line %d: `%s` rewrites %s from its own old value without testing the old value: a second '
                                              'pass over the same dictionary converts again' % (n.lineno, ast.unparse(n)[:90], tgt),
                             'inputs': None})
        # decide-on-resolved
        res = [(n.targets[0].id, n.value.args[0].id) for n in ast.walk(f.node)
               if isinstance(n, ast.Assign) and isinstance(n.targets[0], ast.Name) and isinstance(n.value, ast.Call)
               and isinstance(n.value.func, ast.Attribute) and n.value.func.attr == 'resolve_type_descriptor'
               and n.value.args and isinstance(n.value.args[0], ast.Name)]
        for rname, mname in res:
            for c in ast.walk(f.node):
                if isinstance(c, ast.Compare) and isinstance(c.left, ast.Subscript) and isinstance(c.left.value, ast.Name) \
                        and isinstance(c.left.slice, ast.Constant) and c.left.slice.value == 'type' \
                        and any(isinstance(k, ast.Constant) and k.value in BUILTIN_TYPES for k in c.comparators) \
                        and c.left.value.id in (rname, mname):
                    ok = c.left.value.id == rname
                    name = '%s/decide-on-resolved@%d' % (f.ident, c.lineno)
                    obs.append((name, ok))
                    nf += 1
                    if not ok:
                        viol.append({'obligation': name, 'function': f.ident, 'verdict': 'data-flow obligation failed',
                                     'solver_output': "line %d: `%s` decides on the member as written (%s['type']) although the "
                                                      "member was resolved through its type references into `%s`" % (
                                                          c.lineno, ast.unparse(c)[:80], mname, rname), 'inputs': None})
        if nf:
            funcs.append({'function': f.ident, 'source_sha256': f.sha, 'paths': 1, 'obligations': nf,
                          'discharged': sum(1 for o in obs[-nf:] if o[1]), 'outcomes': {}, 'seconds': 0.0, 'inlined_callees': []})
    # a DEFAULT written at a reference is converted like one written at the definition: for every kind the parser
    # converts by the *written* type name and whose text form differs from the value (BOOLEAN: 'TRUE' / 'FALSE'), the
    # default pass converts it on the resolved type
    f = cls.methods.get('pre_process_default_value')
    if f is not None:
        for kind in ('BOOLEAN', 'BIT STRING', 'OCTET STRING'):
            ok = False
            for n in ast.walk(f.node):
                if isinstance(n, ast.If) and isinstance(n.test, ast.Compare) and ast.unparse(n.test.left) == "resolved_member['type']" \
                        and any(isinstance(k, ast.Constant) and k.value == kind for k in n.test.comparators):
                    txt = ast.unparse(ast.Module(body=n.body, type_ignores=[]))
                    if "member['default'] =" in txt or 'self.pre_process_default_value_' in txt:
                        ok = True
            name = '%s/default-converted-on-resolved-type(%s)' % (f.ident, kind)
            obs.append((name, ok))
            if not ok:
                viol.append({'obligation': name, 'function': f.ident, 'verdict': 'data-flow obligation failed',
                             'solver_output': 'a DEFAULT of a referenced %s type is not converted by pre_process_default_value '
                                              '(the parser converts only by the type name written at the member)' % kind,
                             'inputs': None})
    return {'name': 'pre_process idempotence / resolved decisions', 'obligations': len(obs), 'discharged': sum(1 for o in obs if o[1]),
            'violations': viol, 'functions': funcs,
            'undecided': [] if len(obs) >= 3 else [{'function': 'Compiler.pre_process_*', 'kind': 'vacuous', 'reason': 'fewer than 3 obligations'}],
            'coverage': {'obligations': [o[0] for o in obs]}}


def contract_coverage_check(repo, tier, seed, method='set_tag', mods=('asn1tools/codecs/ber.py', 'asn1tools/codecs/der.py')):
    """coverage obligation for contracts written `for_class="*"`: every class of the BER and DER codecs resolves
    `set_tag` to a definition that is under contract -- a new override (which the per-class expansion would silently skip)
    is reported instead of escaping the identifier-octet contracts (C03; F19 was such an override)."""
    from .verify import Verifier
    import os
    V = Verifier(repo, os.path.dirname(os.path.dirname(os.path.abspath(__file__))))
    have = {(k[0], k[1]) for k, c in V.reg.contracts.items() if not c.abstract}
    obs, viol, funcs = [], [], []
    for rel in mods:
        m = V.prog.module_by_relpath(rel)
        for c in m.classes.values():
            f = V.prog.find_method(c, method)
            if f is None or not f.module.relpath.startswith('asn1tools/'):
                continue
            name = '%s::%s/%s-definition-under-contract(%s)' % (rel, c.name, method, f.ident)
            ok = (f.module.relpath, f.qualname) in have
            obs.append((name, ok))
            if not ok:
                viol.append({'obligation': name, 'function': f.ident, 'verdict': 'coverage obligation failed',
                             'solver_output': 'class %s of %s resolves %s to %s, which has no contract' % (c.name, rel, method, f.ident),
                             'inputs': None})
    return {'name': 'contract coverage (%s)' % method, 'obligations': len(obs), 'discharged': sum(1 for o in obs if o[1]),
            'violations': viol, 'functions': funcs,
            'undecided': [] if len(obs) >= 40 else [{'function': 'ber/der classes', 'kind': 'vacuous', 'reason': 'fewer than 40 classes found'}],
            'coverage': {'classes': len(obs)}}
