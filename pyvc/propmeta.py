"""MANIFEST texts per property (kept next to propcfg; tools/gen_manifest.py writes MANIFEST.json from it)."""
META = {
    'C01': {   'note': 'Not proved: the structural induction over whole compiled type graphs (argued in DESIGN.md), text '
            'decoding of primitive strings (bytes.decode is an assumed builtin), time types, REAL beyond the integer '
            'part (floats are opaque). Open known finding F27 (OER UTF8String with a fixed SIZE).',
    'technique': 'contracts against shared spec functions + inverse lemmas by induction, z3',
    'text': 'Leaf kernel + container plumbing: every encode/decode pair under contract is specified against the same '
            'spec functions (be_val, tc_val, lv, bit-stream algebra, X.691/X.696 length and tag forms) and the '
            'inverse property is a lemma over them proved by induction in the same engine; DEFAULT omission and "no '
            'component dropped" contracts on SEQUENCE encode/decode (BER, PER, OER, GSER counters), PER addition '
            'groups, OER/PER/UPER string and integer classes, Specification.encode/decode (checks before bytes); all '
            'obligations discharged.'},
    'C02': {   'not_applicable': 'JER/XER correctness is a statement about the documents json.dumps/json.loads, float repr and '
                      'xml.etree.ElementTree (tostring / fromstring, escaping of <, &, quotes) produce and accept: '
                      'every step that decides well-formedness and round-trip happens inside those C/stdlib '
                      'functions, for which a contract could only be assumed, never discharged, and the JSON/XML '
                      'grammars over unbounded strings and IEEE-754 repr/float round-trip are outside what z3/cvc5 '
                      'decide (string-theory queries over replace chains and int(s[a:b]) already stay unknown).  '
                      'Contracts on the thin asn1tools mapping code alone would prove nothing the property states; a '
                      'differential fuzzer would decide it but is a different technique family.'},
    'C03': {   'note': 'Not covered: sort key for tag numbers >= 16384 (known, listed in DESIGN.md), time types, REAL contents '
            'beyond the integer part. The sortedness / cleaning obligations are data-flow obligations over the AST, '
            'not SMT proofs (sorted() and bytes.rstrip are assumed builtins).',
    'technique': 'contracts + VC generation over the python ast, z3; lemmas by induction; pyvc-own for '
                 'copy-before-write',
    'text': 'Every obligation generated from the DER/BER encoder primitives (encode_length_definite == the minimal '
            'definite form, encode_tag == tag_octets for every class of both codecs incl. the class bits kept by '
            "set_tag, minimal two's complement integers, BOOLEAN 0xFF, BIT STRING unused bits, the TLV wrapper for "
            'every concrete class, DEFAULT omission in encode_member, OID subidentifiers) is discharged for all '
            'inputs; data-flow obligations: SET components sorted by tag, SET OF encodings sorted, named-bit BIT '
            'STRING cleaned, copy-before-write (also through wrapper types), memo keys, set_tag definitions all '
            'under contract.'},
    'C04': {   'note': 'The permutation argument for SET (any order accepted) beyond one round and value equality of '
            're-serialised encodings for whole type graphs are argued, not mechanised.',
    'technique': 'contracts + VC generation over the python ast, z3',
    'text': 'BER decoder kernel for unbounded input: decode_length accepts every definite form and the indefinite '
            'form, end-of-contents detection, primitive and constructed identifier forms (both identifier octets of '
            'string-like CHOICE alternatives), constructed segment loops (definite length ends exactly, an empty '
            'constructed string consumes nothing), text decoding on the concatenation of the segments, '
            'decode_members incl. "no member dropped per round" (ghost counters); all obligations discharged.'},
    'C05': {   'note': 'Accumulator <= 4096 bits for exact value postconditions (the chunk list is not tracked); fragmented (>= '
            '16K) forms are abstract (generator functions are outside the subset); Decoder.read_bits: the '
            'int/hex/unhexlify string facts are a listed assumption. Open known finding F25 (INTEGER (lb..MAX) is '
            'not encoded as a semi-constrained whole number). Oracle questions 23/24/26 of DESIGN.md section 6 are '
            'not claimed.',
    'technique': 'contracts + VC generation over the python ast, z3; bit-string algebra lemmas (pow2_add, cat_bound) '
                 'by induction',
    'text': 'PER/UPER Encoder/Decoder primitives against X.691 11 with exact value and exact consumption (length '
            'determinant, normally small numbers, constrained whole numbers incl. the aligned forms), and the type '
            'classes INTEGER (aligned and unaligned), ENUMERATED, BOOLEAN, OCTET STRING, BIT STRING, '
            'known-multiplier strings, SEQUENCE OF, SEQUENCE preamble / additions / addition groups, CHOICE root and '
            'additions; all obligations discharged.'},
    'C06': {   'note': 'Open known finding F27 (UTF8String with a fixed SIZE is written without a length). Time types, REAL and '
            'OBJECT IDENTIFIER of the OER codec are not under contract.',
    'technique': 'contracts + VC generation over the python ast, z3; bit-string algebra lemmas by induction',
    'text': 'OER Encoder/Decoder primitives with exact tag / length / integer consumption (X.696 8.6, 8.7, 10), '
            'INTEGER width selection and fixed-width forms (struct.pack model), BOOLEAN, ENUMERATED, BIT/OCTET '
            'STRING, character strings, CHOICE, SEQUENCE preamble and additions bitmap, SEQUENCE OF, and the '
            'whole-octet invariant through every encoder up to CompiledType.encode; all obligations discharged.'},
    'C07': {   'note': 'JER/XER (not applicable, see C02) and the generated C (C09/C10) are outside.',
    'technique': 'contracts + VC generation over the python ast, z3',
    'text': 'Skip contracts with exact consumption: an unknown CHOICE alternative is skipped by exactly tlv_end '
            '(BER), by its length prefix (OER), by index + alignment + open type (aligned PER) and reported as '
            '(None, None); an unknown ENUMERATED value of an extensible type consumes exactly what a known one does; '
            'SEQUENCE additions: a present addition -- known or not, empty or not -- takes its length determinant '
            'plus the announced octets, an absent one nothing (PER invariant, OER/PER presence-guard obligations); '
            'all obligations discharged.'},
    'C08': {   'note': 'Generator-based fragment loops of PER (>= 16K items) and the JER/XER library calls are outside the '
            'kernel; work per element is not bounded by a cost model, only loop termination and allocation sizes '
            'are.',
    'technique': 'contracts with decreases measures + VC generation, z3; pyvc-own frame check',
    'text': 'Termination (a decreases measure on every while loop, for-loops over finite sequences) and progress '
            'contracts for the BER/DER/OER/PER decode kernels, allocation obligations (a container sized by a '
            'decoded number is bounded by the input size), frame obligations on all decode paths (no shared state '
            'written).'},
    'C09': {   'not_applicable': 'The property is about the behaviour of C programs that asn1tools/source/c/uper.py emits as '
                      'text for every accepted specification (equivalence with the Python UPER codec, buffer errors, '
                      'memory safety).  A contract on the Python generator can only speak about the strings it '
                      'returns; stating C semantics of those strings needs a deductive C verifier (Frama-C/WP, VST, '
                      'VeriFast) and none is installed, and a proof would have to be generic over all generated '
                      'programs (a verified compiler), which is not within reach of per-function contracts.  '
                      'Compile-and-compare under ASan/UBSan would decide instances but is differential testing, not '
                      'this family.'},
    'C10': {   'not_applicable': 'Same situation as C09 for asn1tools/source/c/oer.py: the subject is the generated C text '
                      '(extension-addition presence masks, skipping of unknown additions, buffer-size errors, '
                      'absence of UB), not a Python function result that a contract can constrain; no deductive '
                      'verifier for C is installed and the claim quantifies over all generated programs.'},
    'C11': {   'note': 'Bound resolution in the compiler (get_size_range / get_restricted_to_range) is not under contract.',
    'technique': 'contracts (raises-iff) + VC generation over the python ast, z3 (strings, quantified loop '
                 'invariants)',
    'text': 'iff-contracts on the constraints checker (ConstraintsError exactly when the declared range / size / '
            'alphabet is violated; extensible => not enforced; every list element and dictionary member visited; '
            'CHOICE; set_range / has_lower_bound / has_upper_bound) discharged for all values.'},
    'C12': {   'note': 'JER is outside (C02). add_location itself is under contract on the identity model of path elements '
            'only.',
    'technique': 'contracts with exceptional postconditions + VC generation over the python ast, z3',
    'text': 'raises-iff contracts on every leaf of the type checker, and exceptional postconditions (located_at) on '
            'the CHOICE / SEQUENCE member / Recursive / CompiledType wrappers of the type checker, the constraints '
            'checker and the BER, PER/UPER, OER, XER and GSER codecs: the error location ends with the component '
            'just traversed; "never a foreign exception" on every encoder under contract (KeyError / TypeError / '
            'struct.error cases were repaired, see known_findings.json).'},
    'C13': {   'category': 'other',
    'engine': 'pyvc-own',
    'note': 'Not covered: option-dependent rewriting (numeric_enums differs between two compiles of one dictionary, '
            'known defect 12), pformat/eval fidelity of .py specifications.',
    'technique': 'data-flow obligations over the ast + ownership/frame obligations (no SMT)',
    'text': 'Data-flow obligations over the real AST of codecs/compiler.py and asn1tools/__init__.py (no SMT): every '
            'type reaches every in-place pass, module threading through lookups, copy-before-write, memo / table '
            'keys cover their inputs (also sys.modules-style tables), guarded rewrite (a pass leaves already '
            'converted values alone), defaults converted on the resolved type.'},
    'C14': {   'category': 'other',
    'engine': 'native-crosscheck',
    'note': 'The grammar half of the property (white space between the words of multi-word keywords) is not '
            'decidable by a contract on this code and is not claimed. No deductive obligation covers ignore_comments '
            'itself.',
    'technique': 'bounded exhaustive comparison with a reference automaton (stand-in) + data-flow obligations over '
                 'the ast',
    'text': 'BOUNDED, not a proof: the comment-blanking pre-pass is compared with a reference automaton of X.680 '
            '12.6 (comments blanked, newlines kept, nothing inside "..." is a comment) on every string up to length '
            '7 (quick) / 9 (thorough) over the six comment-relevant characters; plus 3 data-flow obligations on '
            'parse_string.'},
    'C15': {   'note': 'Trusted: pyvc semantics of the Python subset, z3, builtin axioms (hexlify/int, slicing, IndexError), '
            'spec functions as the reading of X.690. decode_with_length == (decode, len) for whole type graphs rests '
            'on the per-class decode contracts (composition argued, not mechanised).',
    'technique': 'contracts + weakest-precondition style VC generation over the python ast, z3; lemmas by induction',
    'text': 'Every obligation generated from the real skip_tag / decode_length / skip_tag_length_contents / '
            'decode_full_length / read_tag bodies against the X.690 8.1.2/8.1.3 spec functions (tag_end, len_value, '
            'tlv_end) is discharged for all byte strings and offsets, unbounded: the length probe returns tlv_end '
            'once identifier and length octets are present, None before, never another number; exceptional behaviour '
            'is exact (raises iff).'},
    'C16': {   'note': 'The prefix/consumption meta-lemmas that lift this to whole encodings are argued, not mechanised.',
    'technique': 'contracts with exceptional postconditions (raises-iff) + VC generation, z3',
    'text': 'Checked-read contracts on every decoder primitive of BER (decode_length, skip_tag, tag comparison), PER '
            'and OER (read_bit, read_bits, read_bytes, read_non_negative_binary_integer, skip_bits, peek_bit, length '
            '/ tag / integer readers): too few bits => the library decode error, view unchanged, and no other '
            'exception type on that path; every type-class decoder under contract only raises the listed library '
            'errors.'},
    'C17': {   'category': 'other',
    'engine': 'pyvc-own',
    'note': 'Crash points, damaged cache files and diskcache/sqlite/pickle semantics are assumed, not decided; this '
            'is a static data-flow argument, not an SMT proof.',
    'technique': 'data-flow obligations over the python ast (no SMT)',
    'text': 'Key-determines-result for the compile cache as data-flow obligations on the real AST of '
            '_compile_files_cache and compile_files: every input of the miss branch flows into the key through '
            'value-preserving constructors only, raw file bytes, length-prefixed framing, prefix-free codec names, '
            'identical arguments on the cached and uncached paths, default pickling of every class (a hit returns '
            'what the miss stored).'},
    'C18': {   'engine': 'pyvc-own',
    'note': 'Syntactic, conservative ownership analysis (method resolution by name per codec family); CPython '
            'builtins assumed re-entrant; compile-time aliasing between compiled types is C19, not this check.',
    'technique': 'ownership/frame contracts checked by pyvc-own (no SMT)',
    'text': 'Frame obligations (assigns is a subset of owned) for every write site of every function reachable from '
            'Specification/CompiledType encode/decode/decode_with_length/decode_length in all codecs and both '
            'checkers: nothing but per-call objects (Encoder/Decoder/bytearray/result containers/in-flight '
            'exception) is written, inputs are not mutated; hence every call is a function of its arguments, for any '
            'history and any interleaving.'},
    'C19': {   'category': 'other',
    'engine': 'pyvc-own',
    'note': 'The relational statement over reorganised specifications (permutations of assignments, modules, files) '
            'is not decided; OBJECT IDENTIFIER defaults through a reference are a known uncovered defect (DESIGN.md '
            'I.3).',
    'technique': 'ownership/frame obligations (pyvc-own) + data-flow obligations over the ast (no SMT)',
    'text': 'Data-flow / frame obligations (no SMT): copy-before-write in compile_member / compile_type of every '
            'codec, also through wrapper types (ExplicitTag), module threading on type resolution, memo / table keys '
            'include the module, decisions are taken on the resolved descriptor, defaults converted on the resolved '
            'type.'},
    'C20': {   'note': 'Not covered: exact text of SEQUENCE/SET/OF layout, OCTET STRING, REAL; injectivity of the notation is '
            'argued, not proved.',
    'technique': 'contracts against RFC 3641 spec functions + VC generation over the python ast, z3 strings',
    'text': 'Leaf kernel: every GSER leaf encoder under contract equals its RFC 3641 spec function (character '
            'strings with doubled quotation marks, BOOLEAN, INTEGER, NULL, ENUMERATED, CHOICE), BIT STRING length '
            '(one digit per bit, bin() modelled), every present SEQUENCE component is written (ghost counters), and '
            'the top-level wrapper embeds the value text unchanged; all obligations discharged.'},
}
