"""MANIFEST texts per property (kept next to propcfg; tools/gen_manifest.py writes MANIFEST.json from it)."""
META = {
    'C15': {
        'text': 'Every obligation generated from the real skip_tag / decode_length / skip_tag_length_contents / decode_full_length / '
                'read_tag bodies against the X.690 8.1.2/8.1.3 spec functions (tag_end, len_value, tlv_end) is discharged for all byte '
                'strings and offsets, unbounded: the length probe returns tlv_end once identifier and length octets are present, None '
                'before, never another number; exceptional behaviour is exact (raises iff).',
        'note': 'Trusted: pyvc semantics of the Python subset, z3, builtin axioms (hexlify/int, slicing, IndexError), spec functions as the '
                'reading of X.690. decode_with_length == (decode, len) for whole type graphs rests on the per-class decode contracts '
                '(composition argued, not mechanised).',
        'technique': 'contracts + weakest-precondition style VC generation over the python ast, z3; lemmas by induction',
    },
    'C18': {
        'text': 'Frame obligations (assigns is a subset of owned) for every write site of every function reachable from '
                'Specification/CompiledType encode/decode/decode_with_length/decode_length in all codecs and both checkers: nothing but '
                'per-call objects (Encoder/Decoder/bytearray/result containers/in-flight exception) is written, inputs are not mutated; '
                'hence every call is a function of its arguments, for any history and any interleaving.',
        'note': 'Syntactic, conservative ownership analysis (method resolution by name per codec family); CPython builtins assumed '
                're-entrant; compile-time aliasing between compiled types is C19, not this check.',
        'technique': 'ownership/frame contracts checked by pyvc-own (no SMT)',
        'engine': 'pyvc-own',
    },
    'C03': {
        'text': 'Every obligation generated from the DER/BER encoder primitives (encode_length_definite, encode_tag, encode_signed_integer, '
                'Boolean/Integer/OctetString/BitString/Enumerated contents, Null, the TLV wrapper StandardEncodeMixin.encode for every '
                'concrete class, der.BitString.encode) against X.690 spec functions is discharged for all inputs; plus copy-before-write '
                'frame obligations on the compile-time specialisation of cached types.',
        'note': 'Not covered: SET ordering, SET OF sorting, DEFAULT omission in MembersType, named-bit zero stripping, time/REAL. '
                'Spec functions are my reading of X.690 (cross-checked natively against the code on generated inputs).',
        'technique': 'contracts + VC generation over the python ast, z3; lemmas by induction; pyvc-own for copy-before-write',
    },
    'C04': {
        'text': 'Progress/termination and form-acceptance contracts of the BER decoder kernel: decode_length accepts every definite form '
                '(any number of length octets) and the indefinite form, end-of-contents detection, primitive and constructed tag forms, '
                'constructed segment loops; all obligations discharged for unbounded input.',
        'note': 'Reduced: the order-insensitive member loop and value-level equality of re-serialised encodings are not proved.',
        'technique': 'contracts + VC generation over the python ast, z3',
    },
    'C05': {
        'text': 'Exact contracts of the PER/UPER Encoder/Decoder primitives against X.691 clause 11 (alignment, length determinant, '
                'normally small numbers, constrained whole numbers), all obligations discharged.',
        'note': 'Reduced to the numeric core; type classes not under contract yet; accumulator <= 4096 bits for exactness.',
        'technique': 'contracts + VC generation over the python ast, z3; bit-string algebra lemmas (pow2_add, cat_bound) by induction',
    },
    'C06': {
        'text': 'Exact contracts of the OER Encoder/Decoder primitives and of INTEGER width selection (X.696 10), BOOLEAN, fixed-size '
                'BIT STRING/OCTET STRING decode; all obligations discharged.',
        'note': 'Reduced to the numeric core and leaf types listed; containers not under contract yet.',
        'technique': 'contracts + VC generation over the python ast, z3; bit-string algebra lemmas by induction',
    },
    'C07': {
        'text': 'Skip contracts: unknown CHOICE alternative skipped by exactly tlv_end, extensible ENUMERATED unknown value -> None, '
                'checked skip_bits in PER/OER; all obligations discharged.',
        'note': 'Reduced: SEQUENCE addition decoding in PER/OER/BER containers is not under contract yet.',
        'technique': 'contracts + VC generation over the python ast, z3',
    },
    'C08': {
        'text': 'Termination (a decreases measure on every while loop) and progress contracts for the BER/DER/OER decode kernels, '
                'plus frame obligations on all decode paths (no shared state written).',
        'note': 'Reduced: member loops of SEQUENCE/SET, PER chunk generators, JER/XER library calls are outside the kernel.',
        'technique': 'contracts with decreases measures + VC generation, z3; pyvc-own frame check',
    },
    'C11': {
        'text': 'iff-contracts on the constraints checker (raises ConstraintsError exactly when the declared single range / size / '
                'alphabet is violated; extensible => not enforced; every list element visited; CHOICE) discharged for all values.',
        'note': 'Bound resolution in the compiler and SEQUENCE traversal are not under contract yet.',
        'technique': 'contracts (raises-iff) + VC generation over the python ast, z3 (strings, quantified loop invariants)',
    },
    'C16': {
        'text': 'Checked-read contracts on every decoder primitive of BER (decode_length, skip_tag, tag comparison), PER and OER '
                '(read_bit, read_bits, read_non_negative_binary_integer, skip_bits, peek_bit, ...): too few bits => the library decode '
                'error, view unchanged, and no other exception type on that path.',
        'note': 'The prefix/consumption meta-lemmas that lift this to whole encodings are argued, not mechanised.',
        'technique': 'contracts with exceptional postconditions (raises-iff) + VC generation, z3',
    },
    'C12': {
        'text': 'raises-iff contracts on every leaf of the type checker (well-typed values are never rejected, ill-typed ones always), '
                'and exceptional postconditions on the CHOICE / Recursive / CompiledType wrappers of the type checker, the '
                'constraints checker and the BER/XER codecs: the error location ends with the component just traversed.',
        'note': 'Reduced: SEQUENCE/SET member loops and the PER/OER/JER/GSER wrappers are not under contract; foreign exceptions of '
                'the codecs for values that passed the checks are only covered where an encode contract exists.',
        'technique': 'contracts with exceptional postconditions + VC generation over the python ast, z3',
    },
    'C17': {
        'category': 'other',
        'text': 'Key-determines-result for the compile cache as data-flow obligations on the real AST of _compile_files_cache and '
                'compile_files (9 obligations): every input of the miss branch flows into the key, raw file bytes, length-prefixed '
                'framing, prefix-free codec names, identical arguments on the cached and uncached paths.',
        'note': 'Crash points, damaged cache files and diskcache/sqlite semantics are assumed, not decided; this is a static data-flow '
                'argument, not an SMT proof.',
        'technique': 'data-flow obligations over the python ast (no SMT)',
        'engine': 'pyvc-own',
    },
    'C14': {
        'category': 'other',
        'text': 'BOUNDED, not a proof: the comment-blanking pre-pass is compared with a reference automaton of X.680 12.6 (comments '
                'blanked, newlines kept, nothing inside "..." is a comment) on every string up to length 7 (quick) / 9 (thorough) over '
                'the six comment-relevant characters; plus 3 data-flow obligations on parse_string.',
        'note': 'The grammar half of the property (white space between the words of multi-word keywords) is not decidable by a '
                'contract on this code and is not claimed. No deductive obligation covers ignore_comments itself.',
        'technique': 'bounded exhaustive comparison with a reference automaton (stand-in) + data-flow obligations over the ast',
        'engine': 'native-crosscheck',
    },
    'C19': {
        'category': 'other',
        'text': 'Reduced scope: frame obligations (copy-before-write) on Compiler.compile_member / compile_type of every codec and '
                'module-threading data-flow obligations on the type-resolution functions of codecs/compiler.py. These are the two '
                'mechanisms of the property that reduce to per-function obligations; the relational statement over reorganised '
                'specifications is not decided.',
        'note': 'Not covered: DEFAULT conversion through references, transitive aliasing through ExplicitTag.inner, permutations.',
        'technique': 'ownership/frame obligations (pyvc-own) + data-flow obligations over the ast (no SMT)',
        'engine': 'pyvc-own',
    },
    'C13': {
        'category': 'other',
        'text': 'Reduced scope: module-threading data-flow obligations on the COMPONENTS OF expansion and type resolution, and '
                'copy-before-write frame obligations; idempotence of the in-place rewriting passes is not decided.',
        'note': 'Not covered: idempotence/option independence of pre_process passes (known defect 12 open), pformat/eval fidelity.',
        'technique': 'data-flow obligations over the ast + ownership/frame obligations (no SMT)',
        'engine': 'pyvc-own',
    },
    'C01': {
        'text': 'Reduced to the leaf kernel: every encode/decode pair under contract is specified against the same spec function, and '
                'the inverse property is a lemma over the spec functions proved by induction in the same engine (two\'s complement '
                'round trip, big-endian octets, DER length octets, bit-field read-after-append); all obligations discharged.',
        'note': 'Not covered: containers, strings, time types, OBJECT IDENTIFIER (known defect 1: 2.40 decodes as 3.0 is still open), '
                'REAL (floating point is outside this family: no stand-in built).',
        'technique': 'contracts against shared spec functions + inverse lemmas by induction, z3',
    },
    'C20': {
        'text': 'Reduced to the leaf kernel: every GSER leaf encoder under contract equals its RFC 3641 spec function (character '
                'strings with doubled quotation marks, BOOLEAN, INTEGER, NULL, ENUMERATED, CHOICE) and the top-level '
                '"name Type ::= value" wrapper embeds the value text unchanged; all obligations discharged.',
        'note': 'Not covered: exact text of SEQUENCE/SET/OF, BIT/OCTET STRING, REAL; injectivity of the notation is argued, not proved.',
        'technique': 'contracts against RFC 3641 spec functions + VC generation over the python ast, z3 strings',
    },
    'C02': {
        'not_applicable': 'JER/XER correctness is a statement about the documents json.dumps/json.loads, float repr and '
            'xml.etree.ElementTree (tostring / fromstring, escaping of <, &, quotes) produce and accept: every step that decides '
            'well-formedness and round-trip happens inside those C/stdlib functions, for which a contract could only be assumed, '
            'never discharged, and the JSON/XML grammars over unbounded strings and IEEE-754 repr/float round-trip are outside what '
            'z3/cvc5 decide (string-theory queries over replace chains and int(s[a:b]) already stay unknown).  Contracts on the thin '
            'asn1tools mapping code alone would prove nothing the property states; a differential fuzzer would decide it but is a '
            'different technique family.',
    },
    'C09': {
        'not_applicable': 'The property is about the behaviour of C programs that asn1tools/source/c/uper.py emits as text for every '
            'accepted specification (equivalence with the Python UPER codec, buffer errors, memory safety).  A contract on the Python '
            'generator can only speak about the strings it returns; stating C semantics of those strings needs a deductive C '
            'verifier (Frama-C/WP, VST, VeriFast) and none is installed, and a proof would have to be generic over all generated '
            'programs (a verified compiler), which is not within reach of per-function contracts.  Compile-and-compare under '
            'ASan/UBSan would decide instances but is differential testing, not this family.',
    },
    'C10': {
        'not_applicable': 'Same situation as C09 for asn1tools/source/c/oer.py: the subject is the generated C text (extension-addition '
            'presence masks, skipping of unknown additions, buffer-size errors, absence of UB), not a Python function result that a '
            'contract can constrain; no deductive verifier for C is installed and the claim quantifies over all generated programs.',
    },
}
