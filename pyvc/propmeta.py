"""MANIFEST texts per property (kept next to propcfg; tools/gen_manifest.py writes MANIFEST.json from it)."""
META = {
    'C15': {
        'text': 'Every obligation generated from the real skip_tag / decode_length / skip_tag_length_contents / decode_full_length / '
                'read_tag bodies against the X.690 8.1.2/8.1.3 spec functions (tag_end, len_value, tlv_end) is discharged for all byte '
                'strings and offsets, unbounded: the length probe returns tlv_end once identifier and length octets are present, None '
                'before, never another number; exceptional behaviour is exact (raises iff).',
        'note': 'Trusted: pyvc semantics of the Python subset, z3, builtin axioms (hexlify/int, slicing, IndexError), spec functions as the '
                'reading of X.690. decode_with_length == (decode, len) for whole type graphs rests on the per-class decode contracts '
                '(composition argued, not mechanised).',
        'technique': 'contracts + weakest-precondition style VC generation over the python ast, z3; lemmas by induction',
    },
    'C18': {
        'text': 'Frame obligations (assigns is a subset of owned) for every write site of every function reachable from '
                'Specification/CompiledType encode/decode/decode_with_length/decode_length in all codecs and both checkers: nothing but '
                'per-call objects (Encoder/Decoder/bytearray/result containers/in-flight exception) is written, inputs are not mutated; '
                'hence every call is a function of its arguments, for any history and any interleaving.',
        'note': 'Syntactic, conservative ownership analysis (method resolution by name per codec family); CPython builtins assumed '
                're-entrant; compile-time aliasing between compiled types is C19, not this check.',
        'technique': 'ownership/frame contracts checked by pyvc-own (no SMT)',
        'engine': 'pyvc-own',
    },
}
