"""./check <property> --tier quick|thorough [--replay FILE]

exit 0: every obligation generated from /repo's current source was discharged (and the bounded
        cross-checks found nothing)
exit 1: VIOLATION property=<id> replay=<path> [no-failing-input-found]
exit 2: undecided (engine could not generate obligations: code left the supported subset)
exit 3: checker crash
"""
import argparse
import hashlib
import json
import multiprocessing as mp
import os
import re
import subprocess
import sys
import time
import traceback

VERIF_ROOT = os.path.dirname(os.path.dirname(os.path.abspath(__file__)))
NATIVE_PY = '/venv/bin/python'

_V = None


def get_verifier(repo):
    global _V
    if _V is None:
        from .verify import Verifier
        _V = Verifier(repo, VERIF_ROOT)
    return _V


def model_value(model, v):
    import z3
    from . import values as VV
    if isinstance(v, VV.VLazy):
        if v.cell['value'] is None:
            return {'__unset__': True}
        v = v.cell['value']
    if isinstance(v, VV.VInt):
        r = model.eval(v.t, model_completion=True)
        return r.as_long() if z3.is_int_value(r) else 0
    if isinstance(v, VV.VBool):
        return bool(z3.is_true(model.eval(v.t, model_completion=True)))
    if v is VV.VNone:
        return None
    if isinstance(v, VV.VSeq):
        r = model.eval(v.t, model_completion=True)
        items = seq_items(r, model)
        items = [x % 256 for x in items] if v.is_bytes else items
        if v.kind == 'bytes':
            return {'__bytes__': bytes(items).hex()}
        if v.kind == 'bytearray':
            return {'__bytearray__': bytes(items).hex()}
        if v.kind == 'tuple':
            return {'__tuple__': items}
        return items
    if isinstance(v, VV.VStr):
        r = model.eval(v.t, model_completion=True)
        try:
            return r.as_string()
        except Exception:
            return ''
    if isinstance(v, VV.VTuple):
        return {'__tuple__': [model_value(model, x) for x in v.items]}
    if isinstance(v, VV.VList):
        return [model_value(model, x) for x in v.items]
    if isinstance(v, VV.VObj):
        cls = v.cls
        modname = getattr(getattr(cls, 'module', None), 'name', 'builtins')
        flds = {k: model_value(model, x) for k, x in v.fields.items()}
        return {'__obj__': modname + ':' + cls.name,
                'fields': {k: x for k, x in flds.items() if not (isinstance(x, dict) and x.get('__unset__'))}}
    if isinstance(v, VV.VConst):
        if v.kind == 'sentinel':
            return {'__repr__': 'sentinel'}
        return {'__repr__': repr(v.py)}
    if isinstance(v, VV.VFloat):
        r = model.eval(v.t, model_completion=True)
        try:
            return {'__float__': repr(float(r.as_fraction()))}
        except Exception:
            return {'__float__': '0.0'}
    return {'__repr__': 'opaque'}


def seq_items(e, model):
    import z3
    k = e.decl().kind() if z3.is_app(e) else None
    if k == z3.Z3_OP_SEQ_EMPTY:
        return []
    if k == z3.Z3_OP_SEQ_UNIT:
        x = model.eval(e.arg(0), model_completion=True)
        return [x.as_long() if z3.is_int_value(x) else 0]
    if k == z3.Z3_OP_SEQ_CONCAT:
        out = []
        for i in range(e.num_args()):
            out.extend(seq_items(e.arg(i), model))
        return out
    return []


def verify_one(job):
    repo, key, timeout_ms, termination, seed = job
    try:
        V = get_verifier(repo)
        if key[0] == 'lemma':
            contract = V.reg.lemmas[key[1]][1]
        else:
            contract = V.reg.contracts[key]
        t0 = time.time()
        res = V.verify(contract, timeout_ms=timeout_ms, termination=termination, seed=seed)
        obs = []
        for o in res.obligations:
            d = {'name': o.name, 'kind': o.kind, 'verdict': o.verdict, 'time': round(o.time, 4),
                 'backend': o.backend, 'line': o.line, 'path': list(o.path_id), 'reason': o.reason}
            if o.verdict != 'proved':
                try:
                    d['smt2'] = o.smt2()[:20000]
                except Exception:
                    d['smt2'] = ''
                if o.model is not None:
                    d['model'] = str(o.model)[:3000]
                    inp = getattr(o, 'inputs_v', None)
                    if inp is not None:
                        try:
                            d['inputs'] = {k: model_value(o.model, v) for k, v in inp[0].items()}
                            d['ghosts'] = {k: model_value(o.model, v) for k, v in inp[1].items()}
                        except Exception as e:
                            d['inputs_error'] = repr(e)
            obs.append(d)
        sample = None
        for o in res.obligations:
            if o.backend != 'simplifier' and o.verdict == 'proved':
                try:
                    sample = {'obligation': contract.ident + '/' + o.name, 'verdict': o.verdict,
                              'time_s': round(o.time, 4), 'backend': o.backend, 'smt2': o.smt2()[:1500]}
                except Exception:
                    pass
                break
        return {'ident': contract.ident, 'props': contract.props, 'paths': res.paths, 'outcomes': res.outcomes,
                'error': res.error, 'error_kind': res.error_kind, 'sha': res.sha, 'time': round(res.time, 3),
                'obligations': obs, 'inlined': res.inlined, 'sample': sample,
                'lemmas_used': sorted(V.reg.lemma_used), 'feas_unknown': res.feas_unknown,
                'assumes': [t for t, _e in contract.assumes] + [w for _k, w, _e in contract.assumes_at], 'bounded': contract.bounded,
                'known': [k for k, _r in contract.known]}
    except Exception:
        return {'ident': str(key), 'props': [], 'paths': 0, 'outcomes': {}, 'error': traceback.format_exc()[-3000:],
                'error_kind': 'crash', 'sha': None, 'time': 0, 'obligations': [], 'inlined': [], 'sample': None,
                'lemmas_used': [], 'feas_unknown': 0}


def native_call(req, timeout=3600):
    env = dict(os.environ)
    env['PYTHONPATH'] = VERIF_ROOT + os.pathsep + req['repo']
    env.pop('PYTHONDONTWRITEBYTECODE', None)
    env['PYTHONPYCACHEPREFIX'] = os.path.join(VERIF_ROOT, '.cache', 'pyc')
    p = subprocess.run([NATIVE_PY, '-m', 'pyvc.native'], input=json.dumps(req), capture_output=True, text=True,
                       cwd=VERIF_ROOT, env=env, timeout=timeout)
    if p.returncode != 0:
        return {'__error__': p.stderr[-3000:]}
    try:
        return json.loads(p.stdout)
    except Exception:
        return {'__error__': 'bad output: ' + p.stdout[-1000:] + p.stderr[-1000:]}


CLASSMAP = {}


def native_crosscheck_parallel(repo, idents, n, seed, workers=16):
    """split contracts over processes"""
    if not idents:
        return {}
    chunks = [idents[i::workers] for i in range(workers)]
    chunks = [c for c in chunks if c]
    with mp.pool.ThreadPool(len(chunks)) as tp:
        outs = tp.map(lambda ch: native_call({'cmd': 'crosscheck', 'repo': repo,
                                              'contracts': os.path.join(VERIF_ROOT, 'contracts'),
                                              'idents': ch, 'n': n, 'seed': seed, 'classmap': CLASSMAP}), chunks)
    rep = {}
    for ch, o in zip(chunks, outs):
        if '__error__' in o:
            for i in ch:
                rep[i] = {'evaluations': 0, 'skipped': 0, 'violations': [], 'errors': [o['__error__']], 'distinct': 0}
        else:
            rep.update(o)
    return rep


def load_known(prop):
    p = os.path.join(VERIF_ROOT, 'known_findings.json')
    if not os.path.exists(p):
        return []
    data = json.load(open(p))
    return [k for k in data.get('findings', []) if prop in k.get('properties', [k.get('property')])]


def safe_name(s):
    return re.sub(r'[^A-Za-z0-9_.@#-]+', '_', s)[:150]


def main():
    ap = argparse.ArgumentParser()
    ap.add_argument('prop')
    ap.add_argument('--tier', default=os.environ.get('VERIF_TIER', 'quick'))
    ap.add_argument('--repo', default=os.environ.get('VERIF_REPO', '/repo'))
    ap.add_argument('--replay', default=None)
    ap.add_argument('--jobs', type=int, default=min(16, os.cpu_count() or 4))
    a = ap.parse_args()
    seed = int(os.environ.get('VERIF_SEED', '0') or 0)
    prop = a.prop
    t0 = time.time()
    if a.replay:
        return do_replay(a)
    try:
        rc = run_check(prop, a.tier, a.repo, seed, a.jobs, t0)
    except SystemExit:
        raise
    except Exception:
        traceback.print_exc()
        rc = 3
    sys.exit(rc)


def do_replay(a):
    rp = json.load(open(a.replay))
    if not rp.get('inputs'):
        print('replay file has no concrete input (no-failing-input-found); obligation:', rp.get('obligation'))
        print(rp.get('solver_output', '')[:2000])
        sys.exit(1)
    out = native_call({'cmd': 'replay', 'repo': a.repo, 'contracts': os.path.join(VERIF_ROOT, 'contracts'),
                       'ident': rp['function'], 'inputs': rp['inputs'], 'ghosts': rp.get('ghosts')})
    print(json.dumps(out, indent=1))
    sys.exit(1 if out.get('status') == 'violated' else 0)


def run_check(prop, tier, repo, seed, jobs, t0):
    from . import propcfg
    cfg = propcfg.PROPS.get(prop)
    if cfg is None:
        print('property %s has no check (not applicable, see MANIFEST.not_applicable)' % prop)
        return 3
    V = get_verifier(repo)
    timeout_ms = 15000 if tier == 'quick' else 60000
    keys = [k for k, c in V.reg.contracts.items() if prop in c.props and not c.abstract]
    lemma_keys = [('lemma', n) for n in lemma_closure(V, [V.reg.contracts[k] for k in keys], cfg.get('lemmas', []))
                  if n not in V.reg.axioms]
    jobs_list = [(repo, k, timeout_ms, prop in propcfg.TERMINATION_PROPS, seed) for k in keys + lemma_keys]
    if not keys and cfg.get('needs_contracts', True):
        print('no contracts carry property %s' % prop)
        return 3
    if not keys:
        jobs_list = []
    results = []
    if jobs_list:
        with mp.Pool(min(jobs, len(jobs_list))) as pool:
            results = pool.map(verify_one, jobs_list, chunksize=1)
    # ---- solver budget exhausted somewhere: re-verify those functions alone, serially, with a 6x budget, so that a
    # busy machine cannot turn a proved obligation into an alarm
    retry = [i for i, r in enumerate(results) if any(o['verdict'] == 'unknown' for o in r['obligations'])]
    for i in retry:
        job = jobs_list[i]
        results[i] = verify_one((job[0], job[1], job[2] * 6, job[3], job[4] + 13))
    # ---- extra analyses registered for this property (frame checker, data-flow, ...)
    extra = []
    for name, fn in cfg.get('extra', []):
        extra.append(fn(repo, tier, seed))
    # ---- native cross-check (bounded stand-in; never counted as proved)
    idents_native = [r['ident'] for r in results if not r['ident'].startswith('spec/') and r['error_kind'] != 'crash'
                     and not V_contract(V, r['ident']).native.get('skip')]
    for c in V.all_contracts():
        if c.for_class_obj is not None:
            CLASSMAP[c.ident] = [c.for_class_obj.module.relpath, c.for_class_obj.name]
    n = cfg.get('native_n', 400) if tier == 'quick' else cfg.get('native_n_thorough', 4000)
    native = native_crosscheck_parallel(repo, idents_native, n, seed, jobs)
    return report(prop, tier, repo, seed, t0, V, results, native, extra, cfg)


def lemma_closure(V, contracts, extra=()):
    """lemmas used (transitively) by the given contracts: each is verified in the same check"""
    import ast
    names = set(V.reg.lemmas)
    used = set()
    work = [n for n in extra if n in names] + [n for n in names if n.startswith('fact_')]
    for c in contracts:
        for n in ast.walk(c.node):
            if isinstance(n, ast.Name) and n.id in names:
                work.append(n.id)
    # spec functions' __facts are justified by lemmas of the same family: include lemmas named in any spec module
    # function that the contracts mention
    while work:
        n = work.pop()
        if n in used:
            continue
        used.add(n)
        f, c = V.reg.lemmas[n]
        for m in ast.walk(f.node):
            if isinstance(m, ast.Name) and m.id in names and m.id not in used:
                work.append(m.id)
    return sorted(used)


def V_contract(V, ident):
    for c in V.all_contracts():
        if c.ident == ident:
            return c
    raise KeyError(ident)


def report(prop, tier, repo, seed, t0, V, results, native, extra, cfg):
    obligations = 0
    discharged = 0
    violations = []
    undecided = []
    funcs = []
    samples = []
    backends = {}
    solver_s = 0.0
    known = load_known(prop)
    for r in results:
        nob = len(r['obligations'])
        nd = sum(1 for o in r['obligations'] if o['verdict'] == 'proved')
        obligations += nob
        discharged += nd
        for o in r['obligations']:
            backends[o['backend'] or 'none'] = backends.get(o['backend'] or 'none', 0) + 1
            solver_s += o['time']
        funcs.append({'function': r['ident'], 'source_sha256': r['sha'], 'paths': r['paths'],
                      'obligations': nob, 'discharged': nd, 'outcomes': r['outcomes'], 'seconds': r['time'],
                      'inlined_callees': r['inlined']})
        if r['sample'] and len(samples) < 6:
            samples.append(r['sample'])
        if r['error']:
            undecided.append({'function': r['ident'], 'kind': r['error_kind'], 'reason': r['error']})
        if nob == 0 and not r['error']:
            undecided.append({'function': r['ident'], 'kind': 'vacuous', 'reason': 'zero obligations generated'})
        if not any(str(k).startswith('return') or str(k).startswith('raise') for k in r['outcomes']) and not r['error']:
            undecided.append({'function': r['ident'], 'kind': 'vacuous',
                              'reason': 'no feasible path reaches the end of the function (contradictory requires?)'})
        for o in r['obligations']:
            if o['verdict'] != 'proved':
                violations.append({'function': r['ident'], 'obligation': r['ident'] + '/' + o['name'], 'verdict': o['verdict'],
                                   'inputs': o.get('inputs'), 'ghosts': o.get('ghosts'), 'model': o.get('model'),
                                   'reason': o.get('reason'), 'smt2': o.get('smt2', ''), 'line': o['line']})
    native_evals = 0
    native_distinct = 0
    native_viol = []
    native_errors = []
    for ident, rep in native.items():
        native_evals += rep.get('evaluations', 0)
        native_distinct += rep.get('distinct', 0)
        for v in rep.get('violations', []):
            native_viol.append((ident, v))
        for e in rep.get('errors', []):
            native_errors.append((ident, e))
    extra_viol = []
    extra_cov = {}
    for ex in extra:
        extra_cov[ex['name']] = ex.get('coverage', {})
        obligations += ex.get('obligations', 0)
        discharged += ex.get('discharged', 0)
        for v in ex.get('violations', []):
            extra_viol.append(v)
        for u in ex.get('undecided', []):
            undecided.append(u)
        for f in ex.get('functions', []):
            funcs.append(f)
        backends[ex['name']] = backends.get(ex['name'], 0) + ex.get('obligations', 0)

    # ---- violations: replay
    lines = []
    nviol = 0
    rdir = os.path.join(os.environ.get('VERIF_REPLAY_DIR') or os.path.join(VERIF_ROOT, 'replays'), prop)
    for v in violations:
        os.makedirs(rdir, exist_ok=True)
        rfile = os.path.join(rdir, safe_name(v['obligation']) + '.json')
        rp = {'property': prop, 'obligation': v['obligation'], 'function': v['function'], 'verdict': v['verdict'],
              'solver_output': (v.get('model') or v.get('reason') or ''), 'smt2': v.get('smt2', ''), 'inputs': None,
              'replay_cmd': './check %s --replay %s' % (prop, os.path.relpath(rfile, VERIF_ROOT))}
        confirmed = False
        if v.get('inputs') and not v['function'].startswith('spec/'):
            out = native_call({'cmd': 'replay', 'repo': repo, 'contracts': os.path.join(VERIF_ROOT, 'contracts'),
                               'ident': v['function'], 'inputs': v['inputs'], 'ghosts': v.get('ghosts')}, timeout=120)
            rp['model_inputs'] = v['inputs']
            rp['model_replay'] = out
            if out.get('status') == 'violated':
                confirmed = True
                rp['inputs'] = v['inputs']
                rp['ghosts'] = v.get('ghosts')
                rp['observed'] = out.get('detail')
        if not confirmed:
            # search a concrete failing input natively (bounded): the cross-check may already have one
            for ident, nv in native_viol:
                if ident == v['function']:
                    confirmed = True
                    rp['inputs'] = nv['inputs']
                    rp['ghosts'] = nv.get('ghosts')
                    rp['observed'] = nv['detail']
                    break
        if not confirmed and not v['function'].startswith('spec/'):
            more = native_call({'cmd': 'crosscheck', 'repo': repo, 'contracts': os.path.join(VERIF_ROOT, 'contracts'),
                                'idents': [v['function']], 'n': 20000, 'seed': seed + 1}, timeout=600)
            for nv in more.get(v['function'], {}).get('violations', []):
                confirmed = True
                rp['inputs'] = nv['inputs']
                rp['ghosts'] = nv.get('ghosts')
                rp['observed'] = nv['detail']
                break
        json.dump(rp, open(rfile, 'w'), indent=1, default=str)
        nviol += 1
        lines.append('VIOLATION property=%s replay=%s%s' % (prop, os.path.relpath(rfile, VERIF_ROOT),
                                                          '' if confirmed else ' no-failing-input-found'))
    reported_funcs = {v['function'] for v in violations}
    for ident, nv in native_viol:
        if ident in reported_funcs:
            continue
        reported_funcs.add(ident)
        os.makedirs(rdir, exist_ok=True)
        rfile = os.path.join(rdir, safe_name(ident + '.native') + '.json')
        rp = {'property': prop, 'obligation': ident + '/native-crosscheck', 'function': ident, 'verdict': 'violated-natively',
              'inputs': nv['inputs'], 'ghosts': nv.get('ghosts'), 'observed': nv['detail'],
              'replay_cmd': './check %s --replay %s' % (prop, os.path.relpath(rfile, VERIF_ROOT))}
        json.dump(rp, open(rfile, 'w'), indent=1, default=str)
        nviol += 1
        lines.append('VIOLATION property=%s replay=%s' % (prop, os.path.relpath(rfile, VERIF_ROOT)))
    for v in extra_viol:
        os.makedirs(rdir, exist_ok=True)
        rfile = os.path.join(rdir, safe_name(v['obligation']) + '.json')
        v = dict(v)
        v['property'] = prop
        json.dump(v, open(rfile, 'w'), indent=1, default=str)
        nviol += 1
        lines.append('VIOLATION property=%s replay=%s%s' % (prop, os.path.relpath(rfile, VERIF_ROOT),
                                                          '' if v.get('inputs') or v.get('confirmed') else ' no-failing-input-found'))
    # ---- known findings (listed in the committed file; never added at run time)
    kf_lines = []
    for k in known:
        if k.get('status') == 'fixed':
            continue
        st = 'not-replayed'
        if k.get('replay'):
            out = native_call({'cmd': 'replay', 'repo': repo, 'contracts': os.path.join(VERIF_ROOT, 'contracts'),
                               'ident': k['replay']['function'], 'inputs': k['replay']['inputs'],
                               'ghosts': k['replay'].get('ghosts')}, timeout=120)
            st = out.get('status')
        kf_lines.append('KNOWN-FINDING: property=%s %s [%s; replay: %s]' % (prop, k['what'], k['id'], st))

    wall = time.time() - t0
    level = cfg.get('level', 'proof')
    assumptions = list(cfg.get('assumptions', [])) + COMMON_ASSUMPTIONS
    seen_as = set()
    for r in results:
        for t in r.get('assumes', []):
            if t not in seen_as:
                seen_as.add(t)
                assumptions.append('assumes() clause: ' + t)
        if r.get('bounded'):
            assumptions.append('bounded contract %s: %s' % (r['ident'], r['bounded']))
    rels = {r['ident'].split('::')[0] for r in results}
    abstract = sorted(c.ident for c in V.reg.contracts.values() if c.abstract and
                      (c.relpath in rels or c.relpath == 'asn1tools/codecs/__init__.py'))
    if abstract:
        assumptions.append('abstract contracts (assumed at call sites; every override under contract refines them, overrides '
                           'without a contract are assumed to): ' + ', '.join(abstract))
    if V.reg.axioms:
        assumptions.append('axioms (assumed builtin contracts, cross-checked natively): ' + ', '.join(sorted(V.reg.axioms)))
    facts = sorted(n[:-7] for n in V.reg.spec_functions if n.endswith('__facts'))
    proved_f = [f for f in facts if ('fact_' + f) in V.reg.lemmas or f in ('be_val',)]
    assumptions.append('side facts of recursive spec functions: proved as lemmas in this run (fact_<f>, be_val_nonneg) for %s; '
                       'assumed (uninterpreted bit operations / builtins, cross-checked natively) for %s' % (
                           ', '.join(proved_f), ', '.join(f for f in facts if f not in proved_f)))
    for ident, e in native_errors[:5]:
        assumptions.append('native cross-check of %s had an internal error: %s' % (ident, str(e)[:200]))
    ev = {
        'property_id': prop, 'tier': tier, 'seed': seed, 'level': level,
        'coverage': {
            'obligations': obligations, 'discharged': discharged,
            'checker_cmd': './check %s --tier %s' % (prop, tier),
            'trusted_base': cfg.get('trusted_base', []) + COMMON_TRUSTED,
            'samples': samples or [{'note': 'no SMT obligation sample (all closed by the simplifier or by non-SMT analyses)'}],
            'functions_under_contract': funcs,
            'backends': backends, 'solver_seconds': round(solver_s, 2),
            'undecided': undecided,
            'bounded': [{'what': 'CPython cross-check of the executable contracts against the real functions (generated inputs)',
                         'evaluations': native_evals, 'distinct_inputs': native_distinct,
                         'bound': '%d generated inputs per contract, value pools + random, seed %d' % (
                             cfg.get('native_n', 400) if tier == 'quick' else cfg.get('native_n_thorough', 4000), seed),
                         'counted_as_proved': False}] + cfg.get('bounded', []),
            'extra_analyses': extra_cov,
            'known_findings_reported': kf_lines,
            'explanation': cfg.get('explanation', ''),
            'evaluations': max(1, obligations), 'distinct_nontrivial': max(2, sum(1 for f in funcs if f['obligations'])),
        },
        'assumptions': assumptions,
        'wall_s': round(wall, 2),
        'violations': nviol,
    }
    evdir = os.environ.get('VERIF_EVIDENCE_DIR') or os.path.join(VERIF_ROOT, 'evidence')
    os.makedirs(evdir, exist_ok=True)
    json.dump(ev, open(os.path.join(evdir, prop + '.json'), 'w'), indent=1, default=str)
    for l in kf_lines:
        print(l)
    print('%s tier=%s functions=%d obligations=%d discharged=%d native_evaluations=%d wall=%.1fs' % (
        prop, tier, len(funcs), obligations, discharged, native_evals, wall))
    for l in lines:
        print(l)
    if nviol:
        return 1
    if undecided:
        for u in undecided:
            print('UNDECIDED property=%s function=%s kind=%s reason=%s' % (prop, u['function'], u['kind'], str(u['reason'])[:300]))
        return 2
    if native_errors:
        for ident, e in native_errors[:5]:
            print('UNDECIDED property=%s function=%s kind=native-error reason=%s' % (prop, ident, str(e)[:300]))
        return 2
    return 0


COMMON_TRUSTED = [
    'pyvc VC generator (/verif/pyvc): Python-subset semantics of DESIGN.md 2.2 (A1-A7)',
    'z3 5.1.0 / cvc5 1.0.3',
    'assumed contracts of Python builtins (pyvc/builtins.py), cross-checked natively on generated inputs',
    'spec functions in /verif/spec are the intended reading of the standards / property statements',
]
COMMON_ASSUMPTIONS = [
    'machine arithmetic: none - Python ints are unbounded and modelled as mathematical integers',
    'values of python type bytes/bytearray have all elements in 0..255 (type invariant, assumed at reads)',
    'composition: a property over whole compiled type graphs follows from the per-function contracts by '
    'structural induction (argued in DESIGN.md 3.3, not mechanised)',
]

if __name__ == '__main__':
    main()
