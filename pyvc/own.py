"""pyvc-own: ownership / frame checker (DESIGN 3.5, appendix E.10).  No SMT.

Obligation form:  assigns(f) is a subset of owned(f)   for every function f reachable from the
entry points.  Every write site (attribute/subscript store, augmented assignment, del, call of a
mutating method, call of a method of a per-call class, argument passed into an owned parameter)
is one obligation; it is discharged when the written object is rooted in
  (a) an object created in the current activation (fresh),
  (b) a parameter that the function's frame contract declares owned, or
  (c) `self` inside a per-call class (Encoder / Decoder / exception objects).
Callers are checked against the callee's frame contract (owned parameters), not its body:
an argument bound to an owned parameter must itself be owned or fresh in the caller.
Method resolution is by name over the class hierarchy (conservative), narrowed by codec family
and call arity.  The pass is flow-sensitive inside a function (strong updates on local names,
joins at control-flow merges).
"""
import ast

from .program import Program, ClassInfo

MUTATORS = {'append', 'extend', 'insert', 'pop', 'remove', 'clear', 'update', 'reverse', 'sort',
            'setdefault', 'popitem', 'add', 'discard', '__setitem__', '__delitem__', '__iadd__',
            'appendleft', 'popleft', 'set', 'write', 'writelines', 'truncate'}

SHARED, OWNED, FRESH, IMMUT = 'shared', 'owned', 'fresh', 'immutable'
ORDER = {SHARED: 0, OWNED: 1, FRESH: 2, IMMUT: 3}


class FrameSpec:
    """frame contracts: which parameters a function owns (may mutate).  Derived from the roles the
    codec APIs give their parameters; every entry is justified in DESIGN.md (C18)."""
    FAMILY = {'ber': 'ber', 'der': 'ber', 'per': 'per', 'uper': 'per', 'oer': 'oer', 'jer': 'jer', 'xer': 'xer',
              'gser': 'gser', 'type_checker': 'tc', 'constraints_checker': 'cc'}

    # classes whose instances are per-call objects: methods may write self
    PER_CALL_CLASSES = {
        ('asn1tools/codecs/per.py', 'Encoder'), ('asn1tools/codecs/per.py', 'Decoder'),
        ('asn1tools/codecs/uper.py', 'Encoder'), ('asn1tools/codecs/uper.py', 'Decoder'),
        ('asn1tools/codecs/oer.py', 'Encoder'), ('asn1tools/codecs/oer.py', 'Decoder'),
        ('asn1tools/codecs/__init__.py', 'ErrorWithLocation'),
    }

    @staticmethod
    def family(relpath):
        base = relpath.rsplit('/', 1)[-1][:-3]
        return FrameSpec.FAMILY.get(base, 'shared')

    @staticmethod
    def owned(func, param):
        """is `param` of `func` a per-call object that func may mutate?"""
        fam = FrameSpec.family(func.module.relpath)
        if fam in ('per', 'oer') and param in ('encoder', 'decoder'):
            return True          # PER/OER bit streams, created per top-level call
        if fam == 'ber' and param in ('encoded', 'encoded_members', 'encoded_addition', 'encoded_elements') \
                and func.name.startswith('encode'):
            return True          # BER output buffer, created per top-level call
        if fam == 'ber' and param == 'values' and func.name.startswith('decode'):
            return True          # result dict under construction (in encode, `values` is the input: shared)
        if fam == 'xer' and param == 'element' and func.name == 'indent_xml':
            return True          # the element tree built by this very call (CompiledType.encode)
        return False


NUMERIC_CALL_PREFIXES = ('read_', 'len', 'int', 'sum', 'min', 'max', 'abs', 'round', 'number_of_', 'bit_length',
                         'size_', 'get_length', 'integer_as_')


def numeric_call(call):
    """a call whose result is a number by naming convention (x += f() then rebinds an int, no mutation)"""
    f = call.func
    name = f.id if isinstance(f, ast.Name) else (f.attr if isinstance(f, ast.Attribute) else '')
    return name.startswith(NUMERIC_CALL_PREFIXES)


def root_name(node):
    while isinstance(node, (ast.Attribute, ast.Subscript, ast.Starred)):
        node = node.value
    if isinstance(node, ast.Name):
        return node.id
    return None


class FuncAnalysis:
    def __init__(self, checker, func):
        self.ck = checker
        self.func = func
        self.kinds = {}
        self.sites = []
        self.calls = []
        self._seen_sites = set()

    def per_call_self(self):
        c = self.func.cls
        if c is None:
            return False
        for k in self.ck.prog.mro(c):
            if isinstance(k, ClassInfo) and (k.module.relpath, k.name) in FrameSpec.PER_CALL_CLASSES:
                return True
        return False

    def join(self, a, b):
        return a if ORDER[a] <= ORDER[b] else b

    # -- expression kind ------------------------------------------------------
    def expr_kind(self, e):
        if e is None or isinstance(e, ast.Constant):
            return IMMUT
        if isinstance(e, (ast.List, ast.Dict, ast.Set, ast.ListComp, ast.DictComp, ast.SetComp,
                          ast.GeneratorExp, ast.Tuple, ast.JoinedStr, ast.Lambda)):
            return FRESH
        if isinstance(e, (ast.BinOp, ast.UnaryOp, ast.Compare)):
            return FRESH
        if isinstance(e, ast.BoolOp):
            r = IMMUT
            for v in e.values:
                r = self.join(r, self.expr_kind(v))
            return r
        if isinstance(e, ast.IfExp):
            return self.join(self.expr_kind(e.body), self.expr_kind(e.orelse))
        if isinstance(e, ast.Name):
            if e.id in self.kinds:
                return self.kinds[e.id]
            return FRESH if e.id in self.locals_ else SHARED        # globals are shared
        if isinstance(e, ast.Subscript):
            if isinstance(e.slice, ast.Slice):
                return FRESH                     # slicing copies
            return self.expr_kind(e.value)
        if isinstance(e, ast.Attribute):
            if e.attr.isupper():
                return IMMUT                     # class/module constant (ENCODING, TAG, ...): str/int/bytes
            return self.expr_kind(e.value)
        if isinstance(e, ast.Call):
            f = e.func
            if isinstance(f, ast.Name):
                if f.id == 'getattr':
                    return self.expr_kind(e.args[0])
                return FRESH                     # builtin constructor / repo constructor / module function result
            if isinstance(f, ast.Attribute):
                if f.attr in ('get', 'pop', 'setdefault', '__getitem__', 'find', 'findall', 'iter', 'items',
                              'values', 'keys', 'get_default'):
                    return self.expr_kind(f.value)      # returns (a view of) a part of the receiver
                return FRESH
            return FRESH
        if isinstance(e, ast.Starred):
            return self.expr_kind(e.value)
        return SHARED

    # -- forward flow-sensitive pass: kinds of locals + write sites -------------------------------------
    def classify(self):
        node = self.func.node
        a = node.args
        self.locals_ = set()
        params = [p.arg for p in a.posonlyargs + a.args + a.kwonlyargs]
        if a.vararg:
            params.append(a.vararg.arg)
        if a.kwarg:
            params.append(a.kwarg.arg)
        for p in params:
            self.locals_.add(p)
            if p == 'self':
                self.kinds[p] = OWNED if (self.per_call_self() or self.func.name == '__init__') else SHARED
            elif FrameSpec.owned(self.func, p):
                self.kinds[p] = OWNED
            else:
                self.kinds[p] = SHARED
        for n in ast.walk(node):
            if isinstance(n, ast.Name) and isinstance(n.ctx, (ast.Store, ast.Del)):
                self.locals_.add(n.id)
            elif isinstance(n, ast.ExceptHandler) and n.name:
                self.locals_.add(n.name)
        return self

    def check(self):
        self.block(self.func.node.body)

    def join_env(self, a, b):
        out = {}
        for k in set(a) | set(b):
            if k in a and k in b:
                out[k] = self.join(a[k], b[k])
            else:
                out[k] = a.get(k, b.get(k))
        return out

    def block(self, stmts):
        for st in stmts:
            self.stmt(st)

    def stmt(self, n):
        if isinstance(n, (ast.FunctionDef, ast.ClassDef, ast.AsyncFunctionDef)):
            return
        if isinstance(n, (ast.Global, ast.Nonlocal)):
            self.add_site(n, 'global/nonlocal declaration', False, SHARED, ','.join(n.names))
            return
        if isinstance(n, ast.Assign):
            self.expr_calls(n.value)
            k = self.expr_kind(n.value)
            for t in n.targets:
                self.expr_calls(t)
                self.store_target(n, t)
                if isinstance(n.value, ast.Tuple) and isinstance(t, (ast.Tuple, ast.List)) and \
                        len(n.value.elts) == len(t.elts):
                    for tt, vv in zip(t.elts, n.value.elts):
                        self.bind(tt, self.expr_kind(vv))
                else:
                    self.bind(t, k)
            return
        if isinstance(n, ast.AnnAssign):
            if n.value is not None:
                self.expr_calls(n.value)
                self.store_target(n, n.target)
                self.bind(n.target, self.expr_kind(n.value))
            return
        if isinstance(n, ast.AugAssign):
            self.expr_calls(n.value)
            if isinstance(n.target, (ast.Attribute, ast.Subscript)):
                self.site(n, 'augmented assignment', n.target.value)
            elif isinstance(n.target, ast.Name):
                cur = self.kinds.get(n.target.id, FRESH)
                seqlike = isinstance(n.value, (ast.List, ast.ListComp, ast.Tuple, ast.Dict, ast.Set)) or \
                    (isinstance(n.value, ast.Call) and not numeric_call(n.value)) or \
                    any(isinstance(x, ast.Constant) and isinstance(x.value, (bytes, str)) for x in ast.walk(n.value))
                if cur == SHARED and seqlike and isinstance(n.op, (ast.Add, ast.BitOr, ast.Mult)):
                    # x += <sequence> mutates a list/bytearray in place
                    self.add_site(n, 'in-place augmented assignment on a shared object', False, SHARED, n.target.id)
            return
        if isinstance(n, ast.Delete):
            for t in n.targets:
                if isinstance(t, (ast.Attribute, ast.Subscript)):
                    self.site(n, 'del', t.value)
            return
        if isinstance(n, ast.Expr):
            self.expr_calls(n.value)
            return
        if isinstance(n, ast.Return):
            if n.value is not None:
                self.expr_calls(n.value)
            return
        if isinstance(n, ast.Raise):
            if n.exc is not None:
                self.expr_calls(n.exc)
            return
        if isinstance(n, ast.Assert):
            self.expr_calls(n.test)
            return
        if isinstance(n, ast.If):
            self.expr_calls(n.test)
            before = dict(self.kinds)
            self.block(n.body)
            after_body = self.kinds
            self.kinds = dict(before)
            self.block(n.orelse)
            self.kinds = self.join_env(after_body, self.kinds)
            return
        if isinstance(n, (ast.While, ast.For)):
            if isinstance(n, ast.While):
                self.expr_calls(n.test)
            else:
                self.expr_calls(n.iter)
            for _ in range(2):
                before = dict(self.kinds)
                if isinstance(n, ast.For):
                    self.bind(n.target, self.iter_elem_kind(n.iter))
                self.block(n.body)
                self.kinds = self.join_env(before, self.kinds)
            self.block(n.orelse)
            return
        if isinstance(n, ast.Try):
            before = dict(self.kinds)
            self.block(n.body)
            envs = [dict(self.kinds)]
            for h in n.handlers:
                self.kinds = self.join_env(before, envs[0])
                if h.name:
                    self.kinds[h.name] = OWNED        # the in-flight exception object belongs to this call
                self.block(h.body)
                envs.append(dict(self.kinds))
            self.kinds = dict(envs[0])
            self.block(n.orelse)
            out = self.kinds
            for e in envs[1:]:
                out = self.join_env(out, e)
            self.kinds = out
            self.block(n.finalbody)
            return
        if isinstance(n, ast.With):
            for it in n.items:
                self.expr_calls(it.context_expr)
                if it.optional_vars is not None:
                    self.bind(it.optional_vars, self.expr_kind(it.context_expr))
            self.block(n.body)
            return
        for sub in ast.iter_child_nodes(n):
            if isinstance(sub, ast.expr):
                self.expr_calls(sub)

    def expr_calls(self, e):
        for n in ast.walk(e):
            if isinstance(n, (ast.ListComp, ast.SetComp, ast.DictComp, ast.GeneratorExp)):
                for g in n.generators:
                    self.bind(g.target, self.iter_elem_kind(g.iter))
            elif isinstance(n, ast.NamedExpr):
                self.bind(n.target, self.expr_kind(n.value))
        for n in ast.walk(e):
            if isinstance(n, ast.Call):
                self.check_call(n)

    def iter_elem_kind(self, it):
        """kind of the elements produced by iterating `it`"""
        if isinstance(it, ast.Call):
            ks = [self.expr_kind(a) for a in it.args]
            if isinstance(it.func, ast.Attribute):
                ks.append(self.expr_kind(it.func.value))
            r = FRESH
            for k in ks:
                if k != IMMUT:
                    r = self.join(r, k)
            return r
        if isinstance(it, (ast.List, ast.Tuple)):
            r = FRESH
            for e in it.elts:
                r = self.join(r, self.expr_kind(e))
            return r
        return self.expr_kind(it)

    def bind(self, target, kind):
        if isinstance(target, ast.Name):
            self.kinds[target.id] = FRESH if kind == IMMUT else kind      # strong update
        elif isinstance(target, (ast.Tuple, ast.List)):
            for e in target.elts:
                self.bind(e, kind)
        elif isinstance(target, ast.Starred):
            self.bind(target.value, kind)

    def add_site(self, node, what, ok, kind, target):
        key = (node.lineno, getattr(node, 'col_offset', 0), what, target)
        if key in self._seen_sites:
            for s_ in self.sites:
                if s_['key'] == key:
                    s_['ok'] = s_['ok'] and ok
            return
        self._seen_sites.add(key)
        self.sites.append({'key': key, 'line': node.lineno, 'what': what, 'ok': ok, 'root_kind': kind,
                           'target': target})

    def site(self, node, what, target_expr):
        k = self.expr_kind(target_expr)
        self.add_site(node, what, k in (OWNED, FRESH, IMMUT), k, ast.unparse(target_expr)[:80])

    def store_target(self, stmt, t):
        if isinstance(t, ast.Attribute):
            self.site(stmt, 'attribute store .%s' % t.attr, t.value)
        elif isinstance(t, ast.Subscript):
            self.site(stmt, 'subscript store', t.value)
        elif isinstance(t, (ast.Tuple, ast.List)):
            for e in t.elts:
                self.store_target(stmt, e)

    def check_call(self, n):
        f = n.func
        if isinstance(f, ast.Attribute):
            name = f.attr
            recv = f.value
            is_super = isinstance(recv, ast.Call) and isinstance(recv.func, ast.Name) and recv.func.id == 'super'
            if name in MUTATORS and not is_super:
                self.site(n, 'call of mutating method .%s()' % name, recv)
            elif not is_super and name in self.ck.per_call_methods and \
                    not (isinstance(recv, ast.Name) and recv.id == 'self' and self.per_call_self()):
                # methods of per-call classes write their receiver
                self.site(n, 'call of per-call-object method .%s()' % name, recv)
            if is_super:
                callees = self.ck.super_methods(self.func, name)
                self.calls.append((name, n, 'super'))
            elif name == '__init__':
                callees = []
            else:
                callees = self.ck.methods_named(name, self.func)
                self.calls.append((name, n, True))
        elif isinstance(f, ast.Name):
            name = f.id
            self.calls.append((name, n, False))
            callees = self.ck.functions_named(self.func.module, name)
        else:
            return
        # arguments bound to owned parameters of any possible callee must be owned/fresh here
        for callee in callees:
            a = callee.node.args
            params = [p.arg for p in a.posonlyargs + a.args]
            if callee.cls is not None and params and params[0] == 'self':
                params = params[1:]
            npos = len([x for x in n.args if not isinstance(x, ast.Starred)])
            if not a.vararg and npos > len(params):
                continue             # arity mismatch: a namesake that cannot be the target
            required = len(params) - len(a.defaults)
            if npos + len(n.keywords) < required and not any(isinstance(x, ast.Starred) for x in n.args):
                continue
            for i, arg in enumerate(n.args):
                if isinstance(arg, ast.Starred):
                    break
                if i < len(params) and FrameSpec.owned(callee, params[i]):
                    self.site(n, 'argument %d of %s() is bound to owned parameter %r' % (i, name, params[i]), arg)
            for kw in n.keywords:
                if kw.arg in params and FrameSpec.owned(callee, kw.arg):
                    self.site(n, 'keyword %s of %s() is bound to an owned parameter' % (kw.arg, name), kw.value)


class FrameChecker:
    def __init__(self, repo_root, modules=None):
        self.prog = Program(repo_root)
        self.modules = modules
        self._by_name = None
        self.per_call_methods = set()
        for m in self.prog.modules.values():
            for c in m.classes.values():
                if any(isinstance(k, ClassInfo) and (k.module.relpath, k.name) in FrameSpec.PER_CALL_CLASSES
                       for k in self.prog.mro(c)):
                    for name, f in c.methods.items():
                        if name.startswith('__') and name not in ('__iadd__',):
                            continue
                        if self.writes_self(f):
                            self.per_call_methods.add(name)

    def writes_self(self, f):
        for n in ast.walk(f.node):
            if isinstance(n, (ast.Assign, ast.AugAssign)):
                ts = n.targets if isinstance(n, ast.Assign) else [n.target]
                for t in ts:
                    if isinstance(t, (ast.Attribute, ast.Subscript)) and root_name(t) == 'self':
                        return True
            if isinstance(n, ast.Call) and isinstance(n.func, ast.Attribute) and root_name(n.func.value) == 'self':
                return True      # delegates to another method of self (conservative)
        return False

    def in_scope(self, m):
        return self.modules is None or m.relpath in self.modules

    def super_methods(self, func, name):
        if func.cls is None:
            return []
        f = self.prog.find_method(func.cls, name, after=func.cls)
        return [f] if f is not None and self.in_scope(f.module) else []

    def methods_named(self, name, caller=None):
        if self._by_name is None:
            self._by_name = {}
            for m in self.prog.modules.values():
                if not self.in_scope(m):
                    continue
                for c in m.classes.values():
                    for f in c.methods.values():
                        self._by_name.setdefault(f.name, []).append(f)
        r = self._by_name.get(name, [])
        if caller is None:
            return r
        fam = FrameSpec.family(caller.module.relpath)
        if fam == 'shared':
            # asn1tools/compiler.py (Specification) only holds CompiledType objects; codecs/__init__.py calls
            # back into nothing but its own classes
            return [f for f in r if FrameSpec.family(f.module.relpath) == 'shared' or
                    (f.cls is not None and f.cls.name == 'CompiledType')]
        return [f for f in r if FrameSpec.family(f.module.relpath) in (fam, 'shared')]

    def functions_named(self, module, name):
        r = self.prog.resolve(module, name)
        if r is None:
            return []
        if r[0] == 'func' and self.in_scope(r[1].module):
            return [r[1]]
        if r[0] == 'class' and isinstance(r[1], ClassInfo):
            f = self.prog.find_method(r[1], '__init__')
            return [f] if f is not None and self.in_scope(f.module) else []
        return []

    def reachable(self, entries):
        seen = {}
        work = list(entries)
        while work:
            f = work.pop()
            if f.ident in seen:
                continue
            fa = FuncAnalysis(self, f).classify()
            fa.check()
            seen[f.ident] = fa
            for name, node, is_method in fa.calls:
                if is_method == 'super':
                    cands = self.super_methods(f, name)
                elif is_method:
                    cands = self.methods_named(name, f)
                else:
                    cands = self.functions_named(f.module, name)
                for g in cands:
                    if g.ident not in seen:
                        work.append(g)
            for n in ast.walk(f.node):
                if isinstance(n, ast.Attribute) and isinstance(n.ctx, ast.Load):
                    for g in self.methods_named(n.attr, f):
                        if 'property' in g.decorators and g.ident not in seen:
                            work.append(g)
        return seen

    def entry_points(self, names, class_names=None, files=None):
        out = []
        for m in self.prog.modules.values():
            if not self.in_scope(m) or (files is not None and m.relpath not in files):
                continue
            for c in m.classes.values():
                if class_names is not None and c.name not in class_names:
                    continue
                for n in names:
                    if n in c.methods:
                        out.append(c.methods[n])
        return out
