"""Verification driver: one contract -> paths -> obligations -> verdicts."""
import ast
import os
import subprocess
import tempfile
import time
import traceback
import z3

from .values import *
from .program import Program, FuncInfo, ClassInfo, BuiltinClass
from .interp import (Interp, Path, Frame, PyRaise, PathEnd, OutOfSubset, Obligation)
from .registry import Registry


class FunctionResult:
    def __init__(self, contract):
        self.contract = contract
        self.ident = contract.ident
        self.obligations = []
        self.paths = 0
        self.error = None          # out of subset / crash
        self.error_kind = None
        self.sha = None
        self.time = 0.0
        self.inlined = []
        self.feas_unknown = 0
        self.outcomes = {}

    def summary(self):
        d = {}
        for o in self.obligations:
            d[o.verdict] = d.get(o.verdict, 0) + 1
        return d


def solve_obligation(ob, timeout_ms, seed=0, use_cvc5=True):
    if ob.verdict is not None:
        return ob
    t0 = time.time()
    s = z3.Solver()
    s.set('timeout', timeout_ms)
    if seed:
        s.set('random_seed', seed)
    for p in ob.pc:
        s.add(p)
    s.add(z3.Not(ob.goal))
    from .interp import guarded_check
    r = guarded_check(s, timeout_ms / 1000.0 + 5.0)
    ob.backend = 'z3-%s' % z3.get_version_string()
    if r == z3.unsat:
        ob.verdict = 'proved'
    elif r == z3.sat:
        ob.verdict = 'refuted'
        try:
            ob.model = s.model()
        except Exception:
            ob.model = None
    else:
        ob.verdict = 'unknown'
        ob.reason = s.reason_unknown()
        if use_cvc5:
            v = run_cvc5(ob, max(5, timeout_ms // 1000))
            if v == 'unsat':
                ob.verdict = 'proved'
                ob.backend = 'cvc5'
            elif v == 'sat':
                ob.verdict = 'refuted'
                ob.backend = 'cvc5'
    ob.time = time.time() - t0
    return ob


def run_cvc5(ob, timeout_s):
    try:
        smt = ob.smt2()
    except Exception:
        return 'error'
    if 'Val' in smt and 'declare-sort' not in smt:
        pass
    fd, path = tempfile.mkstemp(suffix='.smt2', dir=os.environ.get('PYVC_TMP'))
    try:
        with os.fdopen(fd, 'w') as f:
            f.write('(set-logic ALL)\n' + smt)
        try:
            out = subprocess.run(['/usr/bin/cvc5', '--strings-exp', '--tlimit=%d' % (timeout_s * 1000), path],
                                 capture_output=True, text=True, timeout=timeout_s + 5)
        except subprocess.TimeoutExpired:
            return 'unknown'
        first = out.stdout.strip().split('\n')[0] if out.stdout.strip() else ''
        return first if first in ('sat', 'unsat') else 'unknown'
    finally:
        try:
            os.unlink(path)
        except OSError:
            pass


class Verifier:
    def __init__(self, repo_root, verif_root, contracts_dir=None):
        self.prog = Program(repo_root)
        self.reg = Registry(self.prog, verif_root)
        self.reg.load_contracts(contracts_dir or os.path.join(verif_root, 'contracts'))
        self.verif_root = verif_root

    def target_of(self, contract):
        if contract.relpath.startswith('spec/') or contract.relpath.startswith('spec' + os.sep):
            return self.reg.spec_prog.func(contract.relpath, contract.qualname)
        return self.prog.func(contract.relpath, contract.qualname)

    def lemma_contracts(self):
        return [c for n, (f, c) in self.reg.lemmas.items() if n not in self.reg.axioms]

    def all_contracts(self):
        return [c for c in self.reg.contracts.values() if not c.abstract] + self.lemma_contracts()

    # ------------------------------------------------------------------
    def verify(self, contract, timeout_ms=10000, max_paths=4000, termination=False, seed=0, wall_limit=1200):
        """hard wall-clock limit per function (path enumeration + solving)"""
        import signal

        def _alarm(signum, frame):
            raise TimeoutError()
        try:
            old = signal.signal(signal.SIGALRM, _alarm)
        except ValueError:
            return self.verify_(contract, timeout_ms, max_paths, termination, seed)
        signal.alarm(wall_limit)
        try:
            return self.verify_(contract, timeout_ms, max_paths, termination, seed)
        except TimeoutError:
            res = FunctionResult(contract)
            res.error = 'wall-clock limit of %ds exceeded while generating/solving obligations' % wall_limit
            res.error_kind = 'budget'
            return res
        finally:
            signal.alarm(0)
            signal.signal(signal.SIGALRM, old)

    def verify_(self, contract, timeout_ms=10000, max_paths=4000, termination=False, seed=0):
        res = FunctionResult(contract)
        t0 = time.time()
        try:
            func = self.target_of(contract)
        except KeyError as e:
            res.error = 'target not found: %s' % e
            res.error_kind = 'shape'
            return res
        res.sha = func.sha
        # every statement-anchored annotation must name a statement of the real function: an annotation that no
        # longer matches anything is a shape error (undecided), never a silent no-op
        if contract.stmt_hints and getattr(func, 'node', None) is not None:
            texts = set()
            for n_ in ast.walk(func.node):
                if isinstance(n_, ast.stmt):
                    try:
                        texts.add(ast.unparse(n_))
                    except Exception:
                        pass
            n_if = sum(1 for n_ in ast.walk(func.node) if isinstance(n_, ast.If))
            missing_anchor = None
            for h_ in contract.stmt_hints:
                if h_[0].startswith('@if') and int(h_[0][3:]) >= n_if:
                    missing_anchor = 'at_stmt anchor not found in %s: %r' % (contract.qualname, h_[0])
                if not h_[0].startswith('@') and h_[0] not in texts:
                    missing_anchor = 'at_stmt anchor not found in %s: %r' % (contract.qualname, h_[0][:60])
            # The remaining obligations (postconditions, invariants, termination) are still generated: if one of them
            # fails the function is a violation; only if all of them hold is the lost anchor reported (undecided).
            res.missing_anchor = missing_anchor
        is_lemma = self.reg.is_lemma(func) if self.reg.is_spec_module(func.module) else False
        stack = [[]]
        seen_obl = {}
        self.reg.want_termination = termination
        self.reg.active_contract = contract
        try:
            while stack:
                prefix = stack.pop()
                if res.paths >= max_paths:
                    res.error = 'path budget exceeded (%d)' % max_paths
                    res.error_kind = 'budget'
                    break
                path = Path(prefix)
                I = Interp(self.prog, self.reg, path)
                I.current_contract = contract
                I.current_target = func
                outcome = None
                try:
                    outcome = self.run_path(I, func, contract, is_lemma)
                except PathEnd:
                    outcome = 'cut'
                except OutOfSubset as e:
                    res.error = 'out of subset: %s (path %s)' % (e, path.decisions)
                    res.error_kind = 'subset'
                    stack = []
                except RecursionError:
                    res.error = 'engine recursion limit'
                    res.error_kind = 'crash'
                    stack = []
                res.paths += 1
                res.outcomes[str(outcome)] = res.outcomes.get(str(outcome), 0) + 1
                res.feas_unknown += path.unknown_feas
                stack.extend(path.pending)
                for ob in path.obligations:
                    ob.func = contract.ident
                    res.obligations.append(ob)
        finally:
            self.reg.active_contract = None
        # solve (dedupe identical formulae)
        cache = {}
        for ob in res.obligations:
            if ob.verdict is not None:
                continue
            key = (tuple(p.get_id() for p in ob.pc), ob.goal.get_id())
            if key in cache:
                prev = cache[key]
                ob.verdict, ob.model, ob.backend, ob.reason = prev.verdict, prev.model, prev.backend, prev.reason
                ob.time = 0.0
                continue
            solve_obligation(ob, timeout_ms, seed)
            if ob.verdict == 'unknown':
                # solver budget, not a refutation: one more attempt with a larger budget and another seed
                ob.verdict = None
                solve_obligation(ob, timeout_ms * 4, seed + 7)
            cache[key] = ob
        res.time = time.time() - t0
        res.inlined = sorted(self.reg.inlined)
        if getattr(res, 'missing_anchor', None) and res.error is None and \
                all(ob.verdict == 'proved' for ob in res.obligations):
            res.error = res.missing_anchor
            res.error_kind = 'shape'
        return res

    # ------------------------------------------------------------------
    def make_inputs(self, I, func, contract):
        reg = self.reg
        locals_ = {}
        a = func.node.args
        params = [p.arg for p in a.posonlyargs + a.args]
        module = func.module
        self_cls = None
        for name in params:
            if name == 'self' and func.cls is not None and contract.params.get('self') is None:
                cls = func.cls
                if contract.for_class_obj is not None:
                    cls = contract.for_class_obj
                elif contract.for_class:
                    cls = reg.find_class(contract.for_class, module)
                self_cls = cls
                locals_['self'] = reg.fresh_object(I, cls, 'self', assume_inv=False)
                continue
            ty = contract.params.get(name)
            if ty is None:
                # default value if declared
                di = params.index(name) - (len(params) - len(a.defaults))
                if di >= 0:
                    locals_[name] = I.ev(a.defaults[di], Frame(None, {}, module))
                    continue
                raise OutOfSubset('contract %s gives no type for parameter %s' % (contract.ident, name))
            if name == 'self':
                locals_[name] = reg.fresh_of_type(I, ty, name, module)
                if isinstance(locals_[name], VObj):
                    self_cls = locals_[name].cls
            else:
                locals_[name] = VLazy({'make': (lambda ty=ty, name=name: reg.fresh_of_type(I, ty, name, module)),
                                       'value': None})
        if a.vararg:
            locals_[a.vararg.arg] = VTuple([])
        if a.kwarg:
            locals_[a.kwarg.arg] = VDict({})         # entry point verified for the call without extra keyword options
        for p_, d in zip(a.kwonlyargs, a.kw_defaults):
            ty = contract.params.get(p_.arg)
            if ty is not None:
                locals_[p_.arg] = reg.fresh_of_type(I, ty, p_.arg, module)
            elif d is not None:
                locals_[p_.arg] = I.ev(d, Frame(None, {}, module))
        ghosts = {}
        for g, ty in contract.ghosts.items():
            ghosts[g] = reg.fresh_of_type(I, ty, g, module)
        # ghost parameters declared in the sidecar signature but absent from the real one
        for g in contract.param_order:
            if g not in locals_ and g not in ghosts and g != 'self':
                ghosts[g] = reg.fresh_of_type(I, contract.params[g], g, module)
        return locals_, ghosts, self_cls

    def run_path(self, I, func, contract, is_lemma):
        path = I.path
        reg = self.reg
        locals_, ghosts, self_cls = self.make_inputs(I, func, contract)
        fr = Frame(func, locals_, func.module, func.cls)
        fr.self_cls = self_cls
        # contract frame: parameters + ghosts, spec mode
        cf = Frame(func, dict(locals_), func.module, func.cls)
        cf.locals.update(ghosts)
        cf.spec = True
        cf.target_module = func.module
        is_ctor = func.name == '__init__'
        # class invariant on entry
        if 'self' in locals_ and isinstance(locals_['self'], VObj) and not is_ctor and not contract.no_invariant:
            for inv in reg.class_invariants(locals_['self'].cls):
                path.assume(I.truth(I.ev(inv, cf)))
        for r in contract.requires:
            path.assume(I.truth(I.ev(r, cf)))
        for text, e in contract.assumes:
            path.assume(I.truth(I.ev(e, cf)))
        # known findings (committed in known_findings.json): the obligations are proved on the complement of the
        # recorded region, so any *other* failure of the same obligation is still a violation
        for kid, region in contract.known:
            path.assume(z3.Not(I.truth(I.ev(region, cf))))
        if not path.feasible(z3.BoolVal(True)):
            return 'infeasible-entry'
        old = I.snapshot_frame(cf)
        I.inputs_v = ({k: v for k, v in old.locals.items() if k in locals_}, dict(ghosts))
        I.inputs_force = I.force
        cf.old = old
        fr.old = old
        # ghosts visible to loop invariants
        fr.ghosts = ghosts
        for g, v in ghosts.items():
            fr.locals.setdefault(g, v)
        for g, e in contract.ghost_init.items():
            fr.locals[g] = I.ev(e, cf)
        if contract.decreases is not None:
            I.entry_measure = I.as_int(I.ev(contract.decreases, cf))
        for u in contract.uses:
            I.use_lemma(u, cf)
        outcome = None
        exc = None
        result = None
        try:
            if is_lemma:
                body = [st for st in func.node.body
                        if not (isinstance(st, ast.Expr) and isinstance(st.value, ast.Call) and
                                isinstance(st.value.func, ast.Name) and
                                st.value.func.id in ('requires', 'ensures', 'decreases', 'nofacts', 'forget', 'opaque'))]
                result = self.exec_lemma_body(I, body, fr)
            else:
                result = I.exec_body(func.node.body, fr)
            outcome = 'return'
        except PyRaise as pr:
            exc = pr.exc
            outcome = 'raise'
        # post-state contract frame: same parameter objects (mutated in place)
        pf = Frame(func, {}, func.module, func.cls)
        for k in cf.locals:
            pf.locals[k] = cf.locals[k]     # parameters denote their entry bindings; objects are shared
        pf.locals.update(ghosts)
        for g in contract.ghost_init:
            if g in fr.locals:
                pf.locals[g] = fr.locals[g]     # final value of a ghost variable (usable in postconditions)
        pf.spec = True
        pf.old = old
        pf.target_module = func.module
        cname = contract.qualname
        if outcome == 'return':
            pf.locals['result'] = result
            for u in contract.uses_post:
                I.use_lemma(u, pf)
            for rc in contract.raises:
                if rc.iff and rc.when is not None:
                    t = I.truth(I.ev(rc.when, old))
                    I.prove(z3.Not(t), 'raises', '%s/raises_iff(%s).returned' % (cname, rc.exc), 0)
            for i, e in enumerate(contract.ensures):
                t = I.truth(I.ev(e, pf))
                I.prove(t, 'post', '%s/post.%d' % (cname, i), getattr(e, 'lineno', 0))
            if 'self' in locals_ and isinstance(locals_['self'], VObj) and not contract.no_invariant:
                for i, inv in enumerate(reg.class_invariants(locals_['self'].cls)):
                    I.prove(I.truth(I.ev(inv, pf)), 'inv', '%s/inv.%d' % (cname, i), 0)
            if contract.never_returns:
                I.prove(z3.BoolVal(False), 'post', '%s/never_returns' % cname, 0)
            return 'return'
        # exceptional outcome
        pf.locals['exc'] = exc
        for ecls in (exc.cls_set or [exc.cls]):
            matched = False
            for rc in contract.raises:
                cls = I.resolve_exc_class(rc.exc, self.reg.spec_module_for(contract))
                if self.prog.issubclass(ecls, cls):
                    matched = True
                    if rc.when is not None:
                        t = I.truth(I.ev(rc.when, old))
                        I.prove(t, 'raises', '%s/raises(%s).when' % (cname, rc.exc), 0)
                    for i, e in enumerate(rc.ensures):
                        I.prove(I.truth(I.ev(e, pf)), 'raises', '%s/raises(%s).ensures.%d' % (cname, rc.exc, i), 0)
                    break
            if not matched:
                I.prove(z3.BoolVal(False), 'raises', '%s/raises.unlisted(%s)' % (cname, ecls.name), 0)
        return 'raise:' + exc.cls.name

    def exec_lemma_body(self, I, body, fr):
        return I.exec_body(body, fr)

    def _vacuous(self, contract):
        ob = Obligation('%s/requires.satisfiable' % contract.qualname, 'vacuity', [], z3.BoolVal(False), 0, (), contract.ident)
        ob.verdict = 'vacuous'
        return ob
