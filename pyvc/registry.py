"""Sidecar contracts, spec functions, field declarations (parsed with `ast`, never imported
into the repository)."""
import ast
import os
import z3

from .values import *
from .program import Program, FuncInfo, ClassInfo, BuiltinClass
from .interp import OutOfSubset


class RaiseClause:
    def __init__(self, exc, when=None, iff=False, ensures=None):
        self.exc = exc
        self.when = when
        self.iff = iff
        self.ensures = ensures or []


class LoopSpec:
    def __init__(self):
        self.invariants = []
        self.decreases = None
        self.uses = []
        self.uses_step = []


class Contract:
    def __init__(self, relpath, qualname, node, source_file):
        self.relpath = relpath
        self.qualname = qualname
        self.node = node
        self.source_file = source_file
        self.props = []
        self.params = {}
        self.param_order = []
        self.requires = []
        self.ensures = []
        self.raises = []
        self.assigns = []
        self.loops = {}
        self.inline = False
        self.returns = None
        self.decreases = None
        self.uses = []
        self.uses_post = []
        self.never_returns = False
        self.for_class = None      # verify an inherited method for this concrete class
        self.inline_ok = set()
        self.ghosts = {}
        self.name = None
        self.no_invariant = False
        self.bounded = None
        self.known = []
        self.pure = False
        self.native = {}
        self.refines = []
        self.ghost_init = {}        # ghost variables (specification-only state) and their initial values
        self.ghost_updates = []     # (statement text, [(ghost, expr)]) executed just before that statement
        self.nofacts = set()        # side facts of these spec functions are NOT assumed (used to prove the facts themselves)
        self.alloc_bound = None     # input-size measure for allocation obligations
        self.opaque = set()         # spec functions kept uninterpreted (no definitional unfolding) in this function's VCs
        self.forget = set()         # callee postconditions mentioning these spec functions are not assumed (coarser, faster)
        self.local_types = {}       # declared types of local containers the engine cannot track (lists built in loops)
        self.use_abstract = set()  # callee method names resolved to the abstract contract of the base class
        self.assumes = []          # (text, expr): assumed at entry, listed in the evidence (never silently)
        self.for_class_obj = None
        self.assumes_at = []       # (statement text, why, expr): assumed just before that statement; listed
        self.stmt_hints = []       # (statement text, [lemma uses]) applied just before that statement
        self.abstract = False      # assumed contract of an abstract receiver (proved per subclass)
        self.label = None

    @property
    def ident(self):
        base = self.relpath + '::' + self.qualname
        if self.for_class_obj is not None:
            base += '@' + self.for_class_obj.module.relpath.rsplit('/', 1)[-1][:-3] + '.' + self.for_class_obj.name
        elif self.for_class:
            base += '@' + self.for_class
        if self.label:
            base += '#' + self.label
        return base


class ValSeq:
    """abstract python list of user values: symbolic length, element i is an opaque Val"""

    def __init__(self, name, length):
        self.name = name
        self.length = length
        self.fn = z3.Function(name + '.at', IntS, ValS)

    def at(self, I, i):
        return VOpaque(self.fn(i))


class ObjSeq:
    """abstract sequence of objects (e.g. a member list): symbolic length, element i is a
    record whose fields are uninterpreted functions of i"""

    def __init__(self, name, length, cls, field_types, reg):
        self.name = name
        self.length = length
        self.cls = cls
        self.field_types = field_types
        self.reg = reg
        self._cache = {}

    def at(self, I, i):
        key = i.get_id()
        if key in self._cache:
            return self._cache[key]
        fields = {}
        for k, ty in self.field_types.items():
            fields[k] = self.reg.indexed_of_type(I, ty, '%s.%s' % (self.name, k), i, getattr(self.cls, 'module', None))
        o = VObj(self.cls, fields, tag=None)
        o.tag = z3.Function(self.name + '.id', IntS, IntS)(i)
        self._cache[key] = o
        return o


class Registry:
    def __init__(self, program, verif_root):
        self.prog = program
        self.verif_root = verif_root
        self.spec_prog = Program(verif_root, package='spec')
        self.spec_functions = {}
        self.lemmas = {}
        self.contracts = {}        # key (relpath, qualname, for_class|None, label) -> Contract
        self.by_func = {}
        self.fields = {}           # (relpath, clsname) -> {field: type ast}
        self.invariants = {}       # (relpath, clsname) -> [expr]
        self.mutable = {}          # (relpath, clsname) -> set(field)
        self.global_cache = {}
        self.formatting = set()
        self.inlined = set()
        self.lemma_used = set()
        self.want_termination = False
        self._rec = {}
        self.load_spec()

    # ------------------------------------------------------------------ spec
    def load_spec(self):
        for m in self.spec_prog.modules.values():
            for f in m.functions.values():
                if f.name in self.spec_functions:
                    raise RuntimeError('duplicate spec function %s' % f.name)
                self.spec_functions[f.name] = f
        self.axioms = {}
        for f in self.spec_functions.values():
            if 'lemma' in f.decorators or 'axiom' in f.decorators:
                c = self.parse_contract_body(f.module.relpath, f.name, f.node, f.module.path)
                self.lemmas[f.name] = (f, c)
                if 'axiom' in f.decorators:
                    self.axioms[f.name] = (f, c)       # assumed (builtin contract), never verified; listed in evidence

    def is_spec_module(self, module):
        return module is not None and module.name in self.spec_prog.modules and \
            self.spec_prog.modules[module.name] is module

    def is_lemma(self, func):
        return func.name in self.lemmas and self.lemmas[func.name][0] is func

    def resolve_spec_name(self, name):
        f = self.spec_functions.get(name)
        if f is not None:
            return VConst('func', f)
        if name == 'implies':
            return VConst('specfn', _Prim('implies'))
        return None

    def is_recursive(self, func):
        if func.name not in self._rec:
            r = False
            for n in ast.walk(func.node):
                if isinstance(n, ast.Call) and isinstance(n.func, ast.Name) and n.func.id == func.name:
                    r = True
            self._rec[func.name] = r or 'uninterpreted' in func.decorators or 'ghost' in func.decorators
        return self._rec[func.name]

    def return_kind(self, func):
        r = func.node.returns
        if isinstance(r, ast.Name) and r.id in ('Int', 'Bool', 'Seq', 'Str'):
            return r.id
        raise OutOfSubset('recursive spec function %s needs a return annotation' % func.name)

    def unfold_limit(self, func):
        if 'uninterpreted' in func.decorators or 'ghost' in func.decorators:
            return 0
        for d in func.decorators:
            if d.startswith('unfold('):
                return int(d[7:-1])
        return 2

    def native_spec(self, name):
        """the executable twin of a spec function (imported natively; pure python)"""
        import importlib, sys
        if sys.getrecursionlimit() < 30000:
            sys.setrecursionlimit(30000)
        if self.verif_root not in sys.path:
            sys.path.insert(0, self.verif_root)
        f = self.spec_functions.get(name)
        if f is None:
            return None
        try:
            m = importlib.import_module(f.module.name)
            return getattr(m, name)
        except Exception:
            return None

    def primitive(self, name):
        return PRIMS.get(name)

    def auto_facts(self, func, I, argvals, app):
        fname = func.name + '__facts'
        ff = self.spec_functions.get(fname)
        if ff is None:
            return []
        if I.current_contract is not None and func.name in I.current_contract.nofacts:
            return []
        from .interp import Frame
        fr = Frame(ff, {}, ff.module)
        fr.spec = True
        params = [p.arg for p in ff.node.args.args]
        for p, v in zip(params, list(argvals) + [app]):
            fr.locals[p] = v
        saved = I.unfold_depth
        I.unfold_depth = 99          # facts may mention other functions without unfolding them
        try:
            r = I.spec_block(ff.node.body, fr)
        finally:
            I.unfold_depth = saved
        return [I.truth(r)]

    def note_inlined(self, func):
        self.inlined.add(func.ident)

    def note_lemma_use(self, name):
        self.lemma_used.add(name)

    def may_inline(self, func, contract):
        if contract is not None and (func.qualname in contract.inline_ok or func.name in contract.inline_ok
                                     or '*' in contract.inline_ok):
            return True
        if func.name == '__init__':
            return True
        return False

    # ------------------------------------------------------------------ contracts
    def load_contracts(self, directory):
        for fn in sorted(os.listdir(directory)):
            if fn.endswith('.py') and not fn.startswith('_'):
                self.load_contract_file(os.path.join(directory, fn))
        # refines("Base.method"): the abstract contract's clauses become clauses of the refining contract
        for c in list(self.contracts.values()):
            for ref in c.refines:
                rel, qual = (ref.split('::') if '::' in ref else (c.relpath, ref))
                base = self.contracts.get((rel, qual, None, None))
                if base is None:
                    raise RuntimeError('refines(%s): no such contract' % ref)
                c.requires = list(base.requires) + c.requires
                c.ensures = list(base.ensures) + c.ensures
                c.raises = c.raises + [r for r in base.raises]
                for k, v in base.params.items():
                    c.params.setdefault(k, v)
                if c.returns is None:
                    c.returns = base.returns

    def load_contract_file(self, path):
        with open(path) as f:
            src = f.read()
        tree = ast.parse(src)
        default_file = None
        for node in tree.body:
            if isinstance(node, ast.Assign) and isinstance(node.targets[0], ast.Name) and \
                    node.targets[0].id == 'FILE':
                default_file = ast.literal_eval(node.value)
            elif isinstance(node, ast.Expr) and isinstance(node.value, ast.Call) and \
                    isinstance(node.value.func, ast.Name):
                fn = node.value.func.id
                call = node.value
                if fn == 'fields':
                    rel, cname = self._file_cls(call.args, default_file)
                    d = self.fields.setdefault((rel, cname), {})
                    for k in call.keywords:
                        d[k.arg] = k.value
                elif fn == 'invariant':
                    rel, cname = self._file_cls(call.args[:2] if len(call.args) > 1 and
                                                isinstance(call.args[1], ast.Constant) and
                                                isinstance(call.args[1].value, str) and
                                                isinstance(call.args[0], ast.Constant) and
                                                call.args[0].value.endswith('.py') else call.args[:1],
                                                default_file)
                    skip = 2 if (len(call.args) > 1 and isinstance(call.args[0], ast.Constant) and
                                 str(call.args[0].value).endswith('.py')) else 1
                    self.invariants.setdefault((rel, cname), []).extend(call.args[skip:])
                elif fn == 'fixup':
                    pass
                elif fn == 'formatting':
                    for a_ in call.args:
                        v_ = ast.literal_eval(a_)
                        self.formatting.add((default_file, v_) if '::' not in v_ else tuple(v_.split('::')))
                elif fn == 'mutable':
                    rel, cname = self._file_cls(call.args[:1], default_file)
                    self.mutable[(rel, cname)] = set(ast.literal_eval(a) for a in call.args[1:])
            elif isinstance(node, ast.FunctionDef):
                for dec in node.decorator_list:
                    if isinstance(dec, ast.Call) and isinstance(dec.func, ast.Name) and \
                            dec.func.id == 'contract':
                        args = [ast.literal_eval(a) for a in dec.args]
                        if len(args) == 1:
                            rel, qual = default_file, args[0]
                        else:
                            rel, qual = args
                        c = self.parse_contract_body(rel, qual, node, path)
                        for k in dec.keywords:
                            v = ast.literal_eval(k.value)
                            if k.arg == 'props':
                                c.props = v
                            elif k.arg == 'for_class':
                                c.for_class = v
                            elif k.arg == 'inline':
                                c.inline = v
                            elif k.arg == 'label':
                                c.label = v
                            elif k.arg == 'abstract':
                                c.abstract = v
                            elif k.arg == 'bounded':
                                c.bounded = v
                        if c.for_class in ('*', 'any'):
                            inheritors = self.concrete_inheritors(rel, qual)
                            if c.for_class == 'any':
                                # the body does not depend on the concrete class (abstract callees only): one representative
                                inheritors = inheritors[:1]
                            for cls in inheritors:
                                c2 = self.parse_contract_body(rel, qual, node, path)
                                c2.props, c2.label, c2.inline, c2.abstract, c2.bounded = c.props, c.label, c.inline, c.abstract, c.bounded
                                c2.for_class = cls.name
                                c2.for_class_obj = cls
                                c2.for_class_star = True
                                key = (rel, qual, cls.module.relpath + ':' + cls.name, c.label)
                                self.contracts[key] = c2
                            continue
                        key = (rel, qual, c.for_class, c.label)
                        if key in self.contracts:
                            raise RuntimeError('duplicate contract %r' % (key,))
                        self.contracts[key] = c

    def _file_cls(self, args, default_file):
        vals = [ast.literal_eval(a) for a in args]
        if len(vals) == 2:
            return vals[0], vals[1]
        return default_file, vals[0]

    def parse_contract_body(self, rel, qual, node, path):
        c = Contract(rel, qual, node, path)
        a = node.args
        for p in a.args:
            c.param_order.append(p.arg)
            c.params[p.arg] = p.annotation
        if node.returns is not None:
            c.returns = node.returns
        for st in node.body:
            if not (isinstance(st, ast.Expr) and isinstance(st.value, ast.Call)):
                continue
            call = st.value
            f = call.func
            if isinstance(f, ast.Name):
                n = f.id
                if n == 'requires':
                    c.requires.extend(call.args)
                elif n == 'ensures':
                    c.ensures.extend(call.args)
                elif n in ('raises', 'raises_iff'):
                    exc = call.args[0].id if isinstance(call.args[0], ast.Name) else ast.literal_eval(call.args[0])
                    when = None
                    ens = []
                    for k in call.keywords:
                        if k.arg == 'when':
                            when = k.value
                        elif k.arg == 'ensures':
                            ens = k.value.elts if isinstance(k.value, (ast.List, ast.Tuple)) else [k.value]
                    if n == 'raises_iff':
                        when = call.args[1]
                    c.raises.append(RaiseClause(exc, when, n == 'raises_iff', ens))
                elif n == 'assigns':
                    c.assigns.extend(call.args)
                elif n == 'decreases':
                    c.decreases = call.args[0]
                elif n == 'use':
                    c.uses.extend(call.args)
                elif n == 'use_post':
                    c.uses_post.extend(call.args)
                elif n == 'inline':
                    for x in call.args:
                        c.inline_ok.add(ast.literal_eval(x))
                elif n == 'ghost':
                    for k in call.keywords:
                        c.ghosts[k.arg] = k.value
                elif n == 'never_returns':
                    c.never_returns = True
                elif n == 'no_invariant':
                    c.no_invariant = True
                elif n == 'pure':
                    c.pure = True
                elif n == 'known':
                    c.known.append((ast.literal_eval(call.args[0]), call.args[1]))
                elif n == 'native':
                    for k in call.keywords:
                        c.native[k.arg] = k.value
                elif n == 'ghost_init':
                    for k in call.keywords:
                        c.ghost_init[k.arg] = k.value
                elif n == 'nofacts':
                    for x in call.args:
                        c.nofacts.add(ast.literal_eval(x))
                elif n == 'alloc_bound':
                    c.alloc_bound = call.args[0]
                elif n == 'opaque':
                    for x in call.args:
                        c.opaque.add(ast.literal_eval(x))
                elif n == 'forget':
                    for x in call.args:
                        c.forget.add(ast.literal_eval(x))
                elif n == 'local':
                    for k in call.keywords:
                        c.local_types[k.arg] = k.value
                elif n == 'use_abstract':
                    for x in call.args:
                        c.use_abstract.add(ast.literal_eval(x))
                elif n == 'assumes':
                    c.assumes.append((ast.literal_eval(call.args[0]), call.args[1]))
                elif n == 'refines':
                    c.refines.append(ast.literal_eval(call.args[0]))
                elif n == 'at_stmt':
                    text = ast.literal_eval(call.args[0])
                    uses = []
                    checks = []
                    sets = []
                    assumes_at = []
                    for kw in call.keywords:
                        if kw.arg == 'assume':
                            # at_stmt("<stmt>", assume=("why", expr)): assumed just before the statement, listed
                            assumes_at = [(ast.literal_eval(kw.value.elts[0]), kw.value.elts[1])]
                        elif kw.arg == 'use':
                            uses = kw.value.elts if isinstance(kw.value, (ast.List, ast.Tuple)) else [kw.value]
                        elif kw.arg == 'check':
                            checks = kw.value.elts if isinstance(kw.value, (ast.List, ast.Tuple)) else [kw.value]
                        elif kw.arg == 'set' and isinstance(kw.value, ast.Call):
                            sets = [(k2.arg, k2.value) for k2 in kw.value.keywords]      # set=dict(ghost=expr)
                    key_ = text if text.startswith('@') else ast.unparse(ast.parse(text).body[0])
                    c.stmt_hints.append((key_, uses, checks))
                    for why_, e_ in assumes_at:
                        c.assumes_at.append((key_, why_, e_))
                    if sets:
                        c.ghost_updates.append((key_, sets))
                elif n == 'loop':
                    k = ast.literal_eval(call.args[0])
                    ls = c.loops.setdefault(k, LoopSpec())
                    for kw in call.keywords:
                        vals = kw.value.elts if isinstance(kw.value, (ast.List, ast.Tuple)) else [kw.value]
                        if kw.arg == 'invariant':
                            ls.invariants.extend(vals)
                        elif kw.arg == 'decreases':
                            ls.decreases = kw.value
                        elif kw.arg == 'use':
                            ls.uses.extend(vals)
                        elif kw.arg == 'use_step':
                            ls.uses_step.extend(vals)
        return c

    def concrete_inheritors(self, rel, qual):
        """classes (any module) whose MRO resolves method `qual`'s name to this very definition"""
        cname, mname = qual.split('.', 1)
        base = self.prog.cls(rel, cname)
        target = base.methods[mname]
        out = []
        for m in self.prog.modules.values():
            for c in m.classes.values():
                if base in self.prog.mro(c) and self.prog.find_method(c, mname) is target:
                    if c is base and not self.instantiable(c):
                        continue
                    if self.instantiable(c):
                        out.append(c)
        return out

    def is_abstract_class(self, cls):
        return not self.instantiable(cls)

    def instantiable(self, cls):
        """heuristic from the source: a class is abstract when it is only used as a base (it has subclasses in the
        repository and its name ends with Type/Mixin)"""
        if cls.name.endswith('Mixin') or cls.name in ('Type', 'MembersType', 'ArrayType', 'StringType',
                                                       'PrimitiveOrConstructedType', 'KnownMultiplierStringType'):
            return False
        return True

    def abstract_contract_for(self, func):
        if func.cls is not None:
            for k in self.prog.mro(func.cls):
                if isinstance(k, ClassInfo) and func.name in k.methods:
                    c = self.contracts.get((k.module.relpath, k.name + '.' + func.name, None, None))
                    if c is not None and c.abstract:
                        return c
        return None

    def contract_for(self, func, self_cls=None, label=None):
        rel, qual = func.module.relpath, func.qualname
        if self_cls is not None and isinstance(self_cls, ClassInfo):
            c = self.contracts.get((rel, qual, self_cls.module.relpath + ':' + self_cls.name, label))
            if c is not None:
                return c
            c = self.contracts.get((rel, qual, self_cls.name, label))
            if c is not None:
                return c
        c = self.contracts.get((rel, qual, None, label))
        if c is not None:
            return c
        # a contract written once for every concrete class (for_class="*"): the same clauses apply to a receiver that
        # reaches this very definition through super() from an overriding class
        for (rel_, qual_, cls_, label_), c in self.contracts.items():
            if rel_ == rel and qual_ == qual and label_ == label and cls_ is not None and not c.abstract \
                    and getattr(c, 'for_class_star', False):
                return c
        # abstract contract declared for (a base of) the receiver's class, even where that class only inherits the method
        if self_cls is not None and isinstance(self_cls, ClassInfo):
            for k in self.prog.mro(self_cls):
                if isinstance(k, ClassInfo):
                    c = self.contracts.get((k.module.relpath, k.name + '.' + func.name, None, label))
                    if c is not None and c.abstract:
                        return c
        # abstract contract of an overridden base method (callers are checked against it; every override refines it)
        if func.cls is not None:
            for k in self.prog.mro(func.cls)[1:]:
                if isinstance(k, ClassInfo) and func.name in k.methods:
                    c = self.contracts.get((k.module.relpath, k.name + '.' + func.name, None, label))
                    if c is not None and c.abstract:
                        return c
        return None

    def callee_written_args(self, call):
        """which arguments a call may write, from the `assigns` clauses of every contract the callee name can denote:
        set of positional indexes / keyword names / 'self' (receiver); None when some candidate has no contract"""
        f = call.func
        name = f.attr if isinstance(f, ast.Attribute) else (f.id if isinstance(f, ast.Name) else None)
        if name is None:
            return None
        if name in ('len', 'int', 'bool', 'isinstance', 'bytes', 'bytearray', 'str', 'range', 'sum', 'min', 'max', 'abs',
                    'divmod', 'format', 'getattr', 'hasattr', 'sorted', 'list', 'tuple', 'hex', 'bin', 'chr', 'ord',
                    'float', 'type', 'repr', 'enumerate', 'zip', 'any', 'all', 'reversed', 'copy', 'join', 'decode',
                    'encode', 'hexlify', 'unhexlify', 'get', 'items', 'keys', 'values', 'bit_length', 'to_bytes',
                    'from_bytes', 'startswith', 'endswith', 'replace', 'strip', 'lstrip', 'rstrip', 'upper', 'lower') \
                and not any(q == name or q.endswith('.' + name) for (_r, q, _c, _l) in self.contracts):
            return set()            # builtins / str / bytes methods do not write their arguments
        cands = [c for (rel, q, fc, lab), c in self.contracts.items() if q == name or q.endswith('.' + name)]
        if self.active_contract is not None:
            fam = {self.active_contract.relpath, 'asn1tools/codecs/__init__.py'}
            if self.active_contract.relpath.endswith('der.py'):
                fam.add('asn1tools/codecs/ber.py')
            if self.active_contract.relpath.endswith('uper.py'):
                fam.add('asn1tools/codecs/per.py')
            same = [c for c in cands if c.relpath in fam]
            if same:
                cands = same
        if not cands:
            return None
        out = set()
        for c in cands:
            order = [p for p in c.param_order if p != 'self']
            for a in c.assigns:
                root = a
                while isinstance(root, (ast.Attribute, ast.Subscript)):
                    root = root.value
                if not isinstance(root, ast.Name):
                    return None
                if root.id == 'self':
                    out.add('self')
                elif root.id in order:
                    out.add(order.index(root.id))
                    out.add(root.id)
        return out

    def spec_module_for(self, contract):
        return self.prog.module_by_relpath(contract.relpath) if contract.relpath.startswith(self.prog.package) \
            else self.spec_prog.module_by_relpath(contract.relpath)

    def loop_spec(self, func, k, self_cls=None):
        c = self.contract_for(func, self_cls)
        if c is None and self.active_contract is not None and self.active_contract.relpath == func.module.relpath \
                and self.active_contract.qualname == func.qualname:
            c = self.active_contract
        if self.active_contract is not None and self.active_contract.relpath == func.module.relpath \
                and self.active_contract.qualname == func.qualname:
            c = self.active_contract
        if c is None:
            return None
        return c.loops.get(k)

    active_contract = None

    # ------------------------------------------------------------------ classes / fields
    def declared_fields(self, cls):
        out = {}
        if isinstance(cls, BuiltinClass):
            return out
        for c in reversed(self.prog.mro(cls)):
            if isinstance(c, ClassInfo):
                out.update(self.fields.get((c.module.relpath, c.name), {}))
        return out

    def class_invariants(self, cls):
        out = []
        for c in reversed(self.prog.mro(cls)):
            if isinstance(c, ClassInfo):
                out.extend(self.invariants.get((c.module.relpath, c.name), []))
        return out

    def mutable_fields(self, cls):
        """fields of an object that a callee may write.  Objects of classes without a mutable(...) declaration
        are not written by callees at all (frame discharged separately by pyvc-own, C18)."""
        if isinstance(cls, BuiltinClass):
            return set()
        s = set()
        for c in self.prog.mro(cls):
            if isinstance(c, ClassInfo) and (c.module.relpath, c.name) in self.mutable:
                s = s | self.mutable[(c.module.relpath, c.name)]
        return s

    def check_field_write(self, I, obj, attr, fr):
        pass

    # ------------------------------------------------------------------ types
    def fresh_of_type(self, I, ty, base, module=None):
        """ty is an annotation AST"""
        p = I.path
        if ty is None:
            raise OutOfSubset('missing type annotation for %s' % base)
        if isinstance(ty, ast.Constant) and ty.value is None:
            return VNone
        if isinstance(ty, ast.Name):
            n = ty.id
            if n == 'Int':
                return VInt(p.fresh_int(base))
            if n == 'Nat':
                t = p.fresh_int(base)
                p.assume(t >= 0)
                return VInt(t)
            if n == 'Byte':
                t = p.fresh_int(base)
                p.assume(z3.And(t >= 0, t <= 255))
                return VInt(t)
            if n == 'Bool':
                return VBool(p.fresh_bool(base))
            if n == 'Bytes':
                return VSeq(p.fresh_seq(base), 'bytes')
            if n == 'ByteArray':
                return VSeq(p.fresh_seq(base), 'bytearray')
            if n in ('IntList', 'IdList'):
                return VSeq(p.fresh_seq(base), 'list')
            if n == 'IntTuple':
                return VSeq(p.fresh_seq(base), 'tuple')
            if n == 'Str':
                return VStr(p.fresh_str(base))
            if n == 'Val':
                return VOpaque(p.fresh_val(base))
            if n == 'NoneT':
                return VNone
            if n == 'AbsList':
                return VAbsList('list')
            if n == 'AbsDict':
                return VAbsList('dict')
            if n == 'ValSeq':
                ln = p.fresh_int(base + '.len')
                p.assume(ln >= 0)
                return VConst('objseq', ValSeq(p.fresh_name(base), ln))
            if n == 'Float':
                return VFloat(z3.Real(p.fresh_name(base)))
            if n in ALIASES:
                return self.fresh_of_type(I, ast.parse(ALIASES[n], mode='eval').body, base, module)
        if isinstance(ty, ast.Call) and isinstance(ty.func, ast.Name):
            n = ty.func.id
            if n == 'Opt':
                k = p.choose(2, 'opt:' + base)
                if k == 1:
                    return VNone
                return self.fresh_of_type(I, ty.args[0], base, module)
            if n == 'Union':
                k = p.choose(len(ty.args), 'union:' + base)
                return self.fresh_of_type(I, ty.args[k], base, module)
            if n == 'Lit':
                v = ast.literal_eval(ty.args[0])
                if isinstance(v, str):
                    return VStr(v)
                if isinstance(v, bool):
                    return VBool(v)
                if isinstance(v, int):
                    return VInt(v)
                if isinstance(v, bytes):
                    return VSeq(seq_of(list(v)), 'bytes')
            if n == 'Tup':
                return VTuple([self.fresh_of_type(I, a, '%s.%d' % (base, i), module)
                               for i, a in enumerate(ty.args)])
            if n == 'ListOf':
                # concrete-length python list, length enumerated 0..k
                maxlen = ast.literal_eval(ty.args[1]) if len(ty.args) > 1 else 2
                k = p.choose(maxlen + 1, 'listlen:' + base)
                return VList([self.fresh_of_type(I, ty.args[0], '%s.%d' % (base, i), module)
                              for i in range(k)])
            if n == 'Obj':
                vals = [ast.literal_eval(a) for a in ty.args]
                if len(vals) == 2:
                    cls = self.prog.cls(vals[0], vals[1])
                else:
                    cls = self.find_class(vals[0], module)
                return self.fresh_object(I, cls, base)
            if n == 'Exc':
                cls = I.resolve_exc_class(ast.literal_eval(ty.args[0]), module or next(iter(self.prog.modules.values())))
                o = VObj(cls, {})
                for k2, t2 in self.declared_fields(cls).items():
                    o.fields[k2] = self.fresh_of_type(I, t2, base + '.' + k2, module)
                return o
            if n == 'Const':
                rel, name = [ast.literal_eval(a) for a in ty.args]
                m = self.prog.module_by_relpath(rel)
                return I.global_value(self.prog.resolve(m, name))
            if n == 'Map':
                kk = ast.literal_eval(ty.args[0])
                return VMap(p.fresh_name(base), kk, ty.args[1], self, module)
            if n == 'ObjSeq':
                vals = [ast.literal_eval(a) for a in ty.args]
                cls = self.prog.cls(vals[0], vals[1]) if len(vals) == 2 else self.find_class(vals[0], module)
                ln = p.fresh_int(base + '.len')
                p.assume(ln >= 0)
                return VConst('objseq', ObjSeq(p.fresh_name(base), ln, cls, self.declared_fields(cls), self))
        raise OutOfSubset('type annotation %s' % ast.unparse(ty))

    def indexed_of_type(self, I, ty, base, i, module=None):
        """value described by annotation `ty` as an uninterpreted function of the index term i"""
        isort = i.sort()
        if isinstance(ty, ast.Name):
            n = ty.id
            if n in ('Int', 'Nat', 'Byte'):
                t = z3.Function(base, isort, IntS)(i)
                if n == 'Nat':
                    I.path.assume(t >= 0)
                if n == 'Byte':
                    I.path.assume(z3.And(t >= 0, t <= 255))
                return VInt(t)
            if n == 'Bool':
                return VBool(z3.Function(base, isort, BoolS)(i))
            if n == 'Str':
                return VStr(z3.Function(base, isort, StrS)(i))
            if n in ('Bytes', 'ByteArray', 'IntList', 'IdList'):
                kind = {'Bytes': 'bytes', 'ByteArray': 'bytearray', 'IntList': 'list', 'IdList': 'list'}[n]
                return VSeq(z3.Function(base, isort, SeqS)(i), kind)
            if n == 'Val':
                return VOpaque(z3.Function(base, isort, ValS)(i))
            if n == 'NoneT':
                return VNone
            if n in ALIASES:
                return self.indexed_of_type(I, ast.parse(ALIASES[n], mode='eval').body, base, i, module)
        if isinstance(ty, ast.Call) and isinstance(ty.func, ast.Name):
            n = ty.func.id
            if n == 'Opt':
                k = I.path.choose(2, 'opt:' + base)
                if k == 1:
                    return VNone
                return self.indexed_of_type(I, ty.args[0], base, i, module)
            if n == 'Union':
                k = I.path.choose(len(ty.args), 'union:' + base)
                return self.indexed_of_type(I, ty.args[k], base, i, module)
            if n in ('Lit', 'Const'):
                return self.fresh_of_type(I, ty, base, module)
            if n == 'Obj':
                vals = [ast.literal_eval(a) for a in ty.args]
                cls = self.prog.cls(vals[0], vals[1]) if len(vals) == 2 else self.find_class(vals[0], module)
                o = VObj(cls, {})
                o.tag = z3.Function(base + '.id', isort, IntS)(i)
                for k2, t2 in self.declared_fields(cls).items():
                    o.fields[k2] = VLazy({'make': (lambda t2=t2, k2=k2: self.indexed_of_type(
                        I, t2, '%s.%s' % (base, k2), i, cls.module)), 'value': None})
                self.assume_invariants(I, o)
                return o
        raise OutOfSubset('indexed field type %s' % ast.unparse(ty))

    def find_class(self, name, module):
        if module is not None and name in module.classes:
            return module.classes[name]
        if module is not None:
            r = self.prog.resolve(module, name)
            if r and r[0] == 'class':
                return r[1]
        for m in self.prog.modules.values():
            if name in m.classes:
                return m.classes[name]
        raise OutOfSubset('class %s not found' % name)

    def fresh_object(self, I, cls, base, assume_inv=True):
        obj = VObj(cls, {})
        obj.tag = I.path.fresh_int(base + '.id')
        for k, ty in self.declared_fields(cls).items():
            obj.fields[k] = VLazy({'make': (lambda ty=ty, k=k: self.fresh_of_type(I, ty, base + '.' + k, cls.module)),
                                   'value': None})
        if assume_inv:
            self.assume_invariants(I, obj)
        return obj

    def assume_invariants(self, I, obj):
        """objects of the compiled graph satisfy their class invariant (established by constructors/setters,
        which are verified separately); infeasible shapes are pruned at once"""
        from .interp import Frame, PathEnd
        invs = self.class_invariants(obj.cls)
        if not invs:
            return
        fr = Frame(None, {'self': obj}, obj.cls.module)
        fr.spec = True
        fr.old = fr
        forget = I.current_contract.forget if I.current_contract is not None else ()
        for inv in invs:
            if forget and any(isinstance(n_, ast.Name) and n_.id in forget for n_ in ast.walk(inv)):
                continue
            I.path.assume(I.truth(I.ev(inv, fr)))
        if not I.path.feasible(z3.BoolVal(True)):
            raise PathEnd()


ALIASES = {
    'IntOrMin': "Union(Int, Lit('MIN'))",
    'IntOrMax': "Union(Int, Lit('MAX'))",
}


class _Prim:
    def __init__(self, name):
        self.name = name
        self.module = None


def _implies(I, a, b):
    return VBool(z3.Implies(I.truth(a), I.truth(b)))


def _typed_bytes(I, s):
    return VBool(isinstance(s, VSeq) and s.is_bytes)


def _ident(I, o):
    if isinstance(o, VObj) and o.tag is not None:
        return VInt(o.tag)
    raise OutOfSubset('ident() of %r' % (o,))


def _kind_pred(test):
    def f(I, x):
        return VBool(bool(test(x)))
    return f


def _concat_all(I, segs):
    if isinstance(segs, (VList, VTuple)) and all(isinstance(x, VSeq) for x in segs.items):
        if not segs.items:
            return VSeq(z3.Empty(SeqS), 'list')
        ts = [x.t for x in segs.items]
        return VSeq(ts[0] if len(ts) == 1 else z3.Concat(*ts), 'list')
    raise OutOfSubset('concat_all of %r' % (segs,))


PRIMS = {
    'concat_all': _concat_all,
    'py_is_int': _kind_pred(lambda x: isinstance(x, (VInt, VBool))),
    'py_is_bool': _kind_pred(lambda x: isinstance(x, VBool)),
    'py_is_str': _kind_pred(lambda x: isinstance(x, VStr)),
    'py_is_bytes': _kind_pred(lambda x: isinstance(x, VSeq) and x.is_bytes),
    'py_is_float': _kind_pred(lambda x: isinstance(x, VFloat)),
    'py_is_tuple': _kind_pred(lambda x: isinstance(x, VTuple) or (isinstance(x, VSeq) and x.kind == 'tuple')),
    'py_is_none': _kind_pred(lambda x: x is VNone),
    'ident': _ident,
    'implies': _implies,
    'typed_bytes': _typed_bytes,
}
