"""Symbolic value model (DESIGN 2.2).  int -> Int (exact), bool -> Bool,
bytes/bytearray/list-of-int -> Seq Int, str -> String, tuples structurally,
objects -> records (python dict of field values), user data -> sort Val."""
import z3

IntS = z3.IntSort()
BoolS = z3.BoolSort()
SeqS = z3.SeqSort(IntS)
StrS = z3.StringSort()
ValS = z3.DeclareSort('Val')


class V:
    pass


class VInt(V):
    __slots__ = ('t',)

    def __init__(self, t):
        if isinstance(t, int):
            t = z3.IntVal(t)
        self.t = t

    def __repr__(self):
        return 'VInt(%s)' % self.t


class VBool(V):
    __slots__ = ('t',)

    def __init__(self, t):
        if isinstance(t, bool):
            t = z3.BoolVal(t)
        self.t = t

    def __repr__(self):
        return 'VBool(%s)' % self.t


class VNoneT(V):
    def __repr__(self):
        return 'VNone'


VNone = VNoneT()


class VSeq(V):
    """Sequence of ints. kind: bytes | bytearray | list | tuple"""
    __slots__ = ('t', 'kind')

    def __init__(self, t, kind):
        self.t = t
        self.kind = kind

    @property
    def mutable(self):
        return self.kind in ('bytearray', 'list')

    @property
    def is_bytes(self):
        return self.kind in ('bytes', 'bytearray')

    def __repr__(self):
        return 'VSeq[%s](%s)' % (self.kind, self.t)


class VStr(V):
    __slots__ = ('t',)

    def __init__(self, t):
        if isinstance(t, str):
            t = z3.StringVal(t)
        self.t = t

    def __repr__(self):
        return 'VStr(%s)' % self.t


class VTuple(V):
    __slots__ = ('items',)

    def __init__(self, items):
        self.items = list(items)

    def __repr__(self):
        return 'VTuple%r' % (tuple(self.items),)


class VList(V):
    """Python list of concrete length holding arbitrary values (mutable)."""
    __slots__ = ('items',)

    def __init__(self, items):
        self.items = list(items)

    def __repr__(self):
        return 'VList%r' % (self.items,)


class VDict(V):
    """dict with concrete (python constant) keys"""
    __slots__ = ('d',)

    def __init__(self, d):
        self.d = dict(d)


class VMap(V):
    """dict with symbolic contents: uninterpreted `has` over the key sort; values are produced by the registry
    as uninterpreted functions of the key (so equal keys give equal values)."""
    __slots__ = ('name', 'has', 'keykind', 'valtype', 'reg', 'cache', 'module')

    def __init__(self, name, keykind, valtype, reg, module=None):
        ks = {'int': IntS, 'str': StrS, 'bytes': SeqS, 'val': ValS}[keykind]
        self.name = name
        self.keykind = keykind
        self.valtype = valtype
        self.reg = reg
        self.module = module
        self.has = z3.Function(name + '.has', ks, BoolS)
        self.cache = {}

    def key_term(self, I, key):
        if self.keykind == 'int' and isinstance(key, (VInt, VBool)):
            return I.as_int(key)
        if self.keykind == 'str' and isinstance(key, VStr):
            return key.t
        if self.keykind == 'bytes' and isinstance(key, VSeq):
            return key.t
        if self.keykind == 'val' and isinstance(key, VOpaque):
            return key.t
        return None

    def get(self, I, key):
        k = self.key_term(I, key)
        cid = k.get_id()
        if cid not in self.cache:
            self.cache[cid] = self.reg.indexed_of_type(I, self.valtype, self.name + '.get', k, self.module)
        return self.cache[cid]


class VLazy(V):
    """a parameter / field whose symbolic value is created at first use (avoids forking on unused Opt/Union)"""
    __slots__ = ('cell', 'snapshot')

    def __init__(self, cell, snapshot=False):
        self.cell = cell          # {'make': callable -> V, 'value': V or None, 'snap': initial-state copy}
        self.snapshot = snapshot


class VObj(V):
    __slots__ = ('cls', 'fields', 'tag', 'cls_set')

    def __init__(self, cls, fields=None, tag=None):
        self.cls = cls
        self.fields = fields if fields is not None else {}
        self.tag = tag
        self.cls_set = None

    def __repr__(self):
        return 'VObj<%s>' % getattr(self.cls, 'name', self.cls)


class VConst(V):
    """A python-level constant object: class, function, module, sentinel."""
    __slots__ = ('kind', 'py')

    def __init__(self, kind, py):
        self.kind = kind
        self.py = py

    def __repr__(self):
        return 'VConst(%s,%r)' % (self.kind, self.py)


class VBound(V):
    """bound method: receiver + name (resolved at call)"""
    __slots__ = ('recv', 'name', 'func')

    def __init__(self, recv, name, func=None):
        self.recv = recv
        self.name = name
        self.func = func


class VOpaque(V):
    """user value of unknown python type (sort Val)"""
    __slots__ = ('t',)

    def __init__(self, t):
        self.t = t


class VAbsList(V):
    """python list/dict whose contents the proof does not track (result containers built in loops)"""
    __slots__ = ('kind',)

    def __init__(self, kind='list'):
        self.kind = kind

    def __repr__(self):
        return 'VAbs%s' % self.kind


class VHex(V):
    """result of binascii.hexlify(seq) -- only int(.,16) may consume it"""
    __slots__ = ('seq',)

    def __init__(self, seq):
        self.seq = seq


class VFloat(V):
    __slots__ = ('t',)

    def __init__(self, t):
        self.t = t


def seq_of(pyints):
    if len(pyints) == 0:
        return z3.Empty(SeqS)
    units = [z3.Unit(z3.IntVal(b)) for b in pyints]
    if len(units) == 1:
        return units[0]
    return z3.Concat(*units)
