#!/usr/bin/env python3
"""Confirm a sub-agent's seeded change in a scratch worktree: (1) demo passes on clean HEAD, (2) with the change the
existing test suite shows no new failure, (3) the demo fails.  Keeps it under /verif/seeded/<id>-m<n>/ when confirmed."""
import json, os, shutil, subprocess, sys, re

BASE = json.load(open('/root/.vp/BASELINE.json'))
STABLE = set(BASE['stable_pass'])

def sh(cmd, cwd=None, env=None, timeout=1500):
    p = subprocess.run(cmd, shell=True, cwd=cwd, env=env, capture_output=True, text=True, timeout=timeout)
    return p.returncode, p.stdout + p.stderr

def main(pid, n, prefix='wt', off=0):
    src = '/tmp/%s-%s/out' % (prefix, pid)
    diff, demo, meta = ['%s/%s%s%s' % (src, a, n, b) for a, b in (('m', '.diff'), ('demo', '.py'), ('meta', '.json'))]
    if not (os.path.exists(diff) and os.path.exists(demo)):
        print(pid, n, 'missing deliverables'); return 2
    wt = '/tmp/cf-%s-%s' % (pid, n)
    sh('git -C /repo worktree remove --force %s' % wt)
    rc, out = sh('git -C /repo worktree add --detach %s HEAD' % wt)
    env = dict(os.environ, PYTHONPATH=wt, PYTHONDONTWRITEBYTECODE='1')
    res = {'property': pid, 'mutant': n}
    try:
        rc0, out0 = sh('/venv/bin/python %s' % demo, cwd=wt, env=env, timeout=900)
        res['demo_clean_rc'] = rc0
        rc, out = sh('git apply %s' % diff, cwd=wt)
        res['apply_rc'] = rc
        if rc != 0:
            res['apply_out'] = out[-500:]
        rc1, out1 = sh('/venv/bin/python %s' % demo, cwd=wt, env=env, timeout=900)
        res['demo_mutant_rc'] = rc1
        res['demo_mutant_tail'] = out1[-600:]
        junit = wt + '/junit.xml'
        rc2, out2 = sh('/venv/bin/python -m pytest -q -p no:cacheprovider --timeout=900 --continue-on-collection-errors --junitxml=%s' % junit, cwd=wt, env=env)
        failed = set()
        passed = set()
        if os.path.exists(junit):
            import xml.etree.ElementTree as ET
            for tc in ET.parse(junit).getroot().iter('testcase'):
                name = '%s::%s' % (tc.get('classname'), tc.get('name'))
                if tc.find('failure') is not None or tc.find('error') is not None:
                    failed.add(name)
                else:
                    passed.add(name)
        res['suite_passed'] = len(passed)
        res['suite_failed'] = sorted(failed)
        res['stable_pass_now_failing'] = sorted(STABLE - passed)
        ok = (rc0 == 0 and res['apply_rc'] == 0 and rc1 != 0 and not res['stable_pass_now_failing'])
        res['confirmed'] = ok
        if ok:
            dst = '/verif/seeded/%s-m%s' % (pid, int(n) + int(off))
            os.makedirs(dst, exist_ok=True)
            shutil.copy(diff, dst + '/patch.diff')
            shutil.copy(demo, dst + '/demo.py')
            m = {}
            try:
                m = json.load(open(meta))
            except Exception:
                pass
            json.dump({'property': pid, 'breaks': m.get('summary', ''), 'needs_to_manifest': m.get('needs_to_manifest', ''),
                       'files_changed': m.get('files_changed', []), 'source': 'independent sub-agent (saw only the property text)',
                       'confirmed_by': 'tools/confirm_seeded.py in a scratch worktree of /repo HEAD',
                       'what_i_ran': {'demo_on_clean_rc': rc0, 'demo_with_change_rc': rc1,
                                      'suite_with_change': '%d passed; stable-pass tests now failing: %d' % (len(passed), len(res['stable_pass_now_failing']))},
                       'demo_failure_tail': out1[-400:]}, open(dst + '/meta.json', 'w'), indent=1)
    finally:
        sh('git -C /repo worktree remove --force %s' % wt)
        shutil.rmtree(wt, ignore_errors=True)
    print(json.dumps(res)[:1500])
    return 0

if __name__ == '__main__':
    sys.exit(main(*sys.argv[1:]))
