#!/usr/bin/env python3
"""Regenerate MANIFEST.json from pyvc/propcfg.py (claimed properties) + tools/manifest_static.json."""
import json, os, sys
ROOT = os.path.dirname(os.path.dirname(os.path.abspath(__file__)))
sys.path.insert(0, ROOT)
import importlib.util
spec = importlib.util.spec_from_file_location('propmeta', os.path.join(ROOT, 'pyvc', 'propmeta.py'))
pm = importlib.util.module_from_spec(spec); spec.loader.exec_module(pm)
ids = [json.loads(l)['id'] for l in open(os.path.join(ROOT, 'properties.jsonl'))]
base_cmd = json.load(open('/root/.vp/BASELINE.json'))['cmd'].replace(' --junitxml=<file>', '')
checks = []
na = []
for i in ids:
    m = pm.META.get(i)
    if m is None or m.get('not_applicable'):
        na.append({'property_id': i, 'reason': (m or {}).get('not_applicable', 'check not built yet (see DESIGN.md section 7)')})
        continue
    checks.append({
        'property_id': i,
        'quick_cmd': './check %s --tier quick' % i,
        'thorough_cmd': './check %s --tier thorough' % i,
        'evidence_file': 'evidence/%s.json' % i,
        'replay_cmd_template': './check %s --replay {path}' % i,
        'engine': m.get('engine', 'pyvc'),
        'level_claimed': {'category': m.get('category', 'proof'), 'text': m['text'], 'design_ref': m.get('design_ref', 'DESIGN.md section 4 (%s)' % i)},
        'level_note': m['note'],
        'technique': m['technique'],
    })
man = {
    'version': 1,
    'setup_cmd': './setup.sh',
    'hooks': {'guard': 'EERIMOQ_ASN1TOOLS_VERIF',
              'enable': 'no guarded code exists in /repo: contracts are sidecar files under /verif/contracts and the engine reads /repo sources with ast; the variable is reserved for the runtime monitor',
              'baseline_off_cmd': base_cmd, 'source_commits': [], 'add_only': True},
    'engines': [
        {'name': 'pyvc', 'path': 'pyvc/', 'serves_properties': [c['property_id'] for c in checks if c['engine'] == 'pyvc'],
         'kind_free_text': 'own VC generator: symbolic execution of the real /repo functions (python ast, re-read every run) against sidecar contracts; obligations discharged by z3 5.1 (cvc5 for unknowns); lemmas proved by the same engine (induction)'},
        {'name': 'pyvc-own', 'path': 'pyvc/own.py', 'serves_properties': [c['property_id'] for c in checks if 'own' in c['technique']],
         'kind_free_text': 'ownership/frame checker over the ast (no SMT): assigns is a subset of owned, modular over callee frame contracts'},
        {'name': 'native-crosscheck', 'path': 'pyvc/native.py', 'serves_properties': [c['property_id'] for c in checks],
         'kind_free_text': 'CPython evaluation of the same contracts on generated inputs (bounded stand-in, replay of counterexamples); never counted as proved'},
    ],
    'checks': checks,
    'notes': 'contract-based deductive verification of the real code; see DESIGN.md. exit 0 held / 1 VIOLATION / 2 undecided (out of subset) / 3 crash.',
    'not_applicable': na,
}
json.dump(man, open(os.path.join(ROOT, 'MANIFEST.json'), 'w'), indent=1)
print('claimed:', [c['property_id'] for c in checks]); print('not applicable:', [n['property_id'] for n in na])
