#!/usr/bin/env python3
"""Merge the lines printed by tools/run_seeded.py (a `vp run` log) into seeded/RESULTS.json.
usage: parse_seeded_log.py <log> <verif-commit>"""
import json, os, re, sys
ROOT = os.path.dirname(os.path.dirname(os.path.abspath(__file__)))
path = ROOT + '/seeded/RESULTS.json'
res = json.load(open(path)) if os.path.exists(path) else {}
log, commit = sys.argv[1], sys.argv[2]
for l in open(log):
    m = re.match(r'^(C\d\d-m\d+) (.*)$', l.rstrip('\n'))
    if not m:
        continue
    name, rest = m.groups()
    entry = {'verif_commit': commit, 'checks': {}}
    for pm in re.finditer(r'"(C\d\d)": (?:"(not-claimed)"|\{"rc": (\d))', rest):
        prop = pm.group(1)
        if pm.group(2):
            entry['checks'][prop] = {'verdict': 'property not claimed'}
            continue
        rc = int(pm.group(3))
        seg = rest[pm.end():]
        ob = re.search(r'replays/C\d\d/([^"\\ ]+?)\.json( no-failing-input-found)?', seg)
        entry['checks'][prop] = {'rc': rc, 'verdict': {0: 'missed', 1: 'VIOLATION reported', 2: 'undecided', 3: 'crash'}.get(rc, str(rc)),
                                 'first_obligation': ob.group(1) if ob and rc == 1 else None,
                                 'failing_input_replayed': bool(ob and not ob.group(2)) if rc == 1 else None}
    res[name] = entry
json.dump(res, open(path, 'w'), indent=1, sort_keys=True)
tot = sum(1 for e in res.values() for c in e['checks'].values() if 'rc' in c)
det = sum(1 for e in res.values() for c in e['checks'].values() if c.get('rc') == 1)
print('%d seeded changes, %d claimed-property runs, %d detected' % (len(res), tot, det))
