#!/bin/sh
# runs every registered quick check serially on /repo, prints one line per property (used to regenerate evidence/)
cd "$(dirname "$0")/.." || exit 3
for p in $(python3 -c "import json;print(' '.join(c['property_id'] for c in json.load(open('MANIFEST.json'))['checks']))"); do
  s=$(date +%s); ./check $p > /tmp/check-$p.log 2>&1; rc=$?; e=$(date +%s)
  echo "$p rc=$rc $((e-s))s $(grep -c '^VIOLATION' /tmp/check-$p.log) violations $(grep -c '^KNOWN-FINDING' /tmp/check-$p.log) known $(grep -c '^UNDECIDED' /tmp/check-$p.log) undecided"
done
