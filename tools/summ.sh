#!/bin/sh
# terse summary of a pyvc.run output
python3-vt -m pyvc.run "$@" 2>&1 | python3 -c "
import sys,re,collections
tot=collections.Counter(); bad=[]
for l in sys.stdin:
    m=re.match(r'^(asn1tools|spec)\S* +paths=(\d+) obl=(\d+) (\{.*?\}) ([\d.]+)s ?(.*)',l)
    if m:
        cur=l.split()[0]
        d=eval(m.group(4)); 
        for k,v in d.items(): tot[k]+=v
        tot['functions']+=1
        if m.group(6).strip(): bad.append((cur,'ERR',m.group(6)[:230]))
    elif re.match(r'^\s+(refuted|unknown|vacuous)',l): bad.append((cur,l.strip()[:140],''))
print(dict(tot))
seen=collections.Counter()
for b in bad:
    key=(re.sub(r'@\S+','@*',b[0]),re.sub(r'path \(.*','',b[1]),b[2][:80])
    seen[key]+=1
for k,v in list(seen.items())[:25]: print(v,'x',k)
"
