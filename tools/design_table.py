#!/usr/bin/env python3
"""Prints the I.2 table of DESIGN.md from evidence/*.json and MANIFEST.json (run after all checks)."""
import json, os
ROOT = os.path.dirname(os.path.dirname(os.path.abspath(__file__)))
man = json.load(open(ROOT + '/MANIFEST.json'))
print('| id | level | functions under contract | obligations (discharged) | back ends | bounded / native evaluations | wall s |')
print('|----|-------|--------------------------|--------------------------|-----------|------------------------------|--------|')
for c in man['checks']:
    p = c['property_id']
    try:
        e = json.load(open('%s/evidence/%s.json' % (ROOT, p)))
    except Exception:
        print('| %s | %s | (no evidence) | | | | |' % (p, c['level_claimed']))
        continue
    cov = e['coverage']
    be = ', '.join('%s %s' % (k, v) for k, v in sorted(cov.get('backends', {}).items(), key=lambda kv: -kv[1]))
    print('| %s | %s | %d | %d (%d) | %s | %s | %.0f |' % (p, e.get('level'), len(cov.get('functions_under_contract', [])), cov.get('obligations', 0),
          cov.get('discharged', 0), be, (cov.get('bounded') or [{}])[0].get('evaluations', 0), e.get('wall_s', 0)))
