#!/usr/bin/env python3
"""Prints the I.5 table of DESIGN.md from seeded/*/meta.json and seeded/RESULTS.json."""
import json, os
ROOT = os.path.dirname(os.path.dirname(os.path.abspath(__file__)))
res = json.load(open(ROOT + '/seeded/RESULTS.json'))
print('| change | what it breaks (sub-agent summary, shortened) | result of the property check | first failing obligation |')
print('|--------|-----------------------------------------------|------------------------------|--------------------------|')
for name in sorted(os.listdir(ROOT + '/seeded')):
    d = ROOT + '/seeded/' + name
    if not os.path.isdir(d):
        continue
    try:
        meta = json.load(open(d + '/meta.json'))
    except Exception:
        meta = {}
    br = (meta.get('breaks') or '').replace('|', '/').replace('\n', ' ')
    br = br[:150] + ('…' if len(br) > 150 else '')
    r = res.get(name, {}).get('checks', {})
    if not r:
        print('| %s | %s | not run | |' % (name, br)); continue
    for prop, c in r.items():
        ob = (c.get('first_obligation') or '').replace('asn1tools_codecs_', '').replace('asn1tools_', '')
        v = c['verdict']
        if c.get('rc') == 1:
            v = 'caught' + (' (input replayed)' if c.get('failing_input_replayed') else ' (obligation, no input)')
        print('| %s | %s | %s | `%s` |' % (name, br, v, ob[:90]))
