#!/usr/bin/env python3
"""Run property checks against each kept seeded change (applied to a scratch copy of /repo, never to /repo)."""
import json, os, shutil, subprocess, sys, tempfile
ROOT = os.path.dirname(os.path.dirname(os.path.abspath(__file__)))
def main():
    names = sys.argv[1:] or sorted(os.listdir(os.path.join(ROOT, 'seeded')))
    props_all = json.load(open(os.path.join(ROOT, 'MANIFEST.json')))
    claimed = [c['property_id'] for c in props_all['checks']]
    out = {}
    par = int(os.environ.get('SEEDED_PAR', '3'))
    from concurrent.futures import ThreadPoolExecutor
    def one(name):
        d = os.path.join(ROOT, 'seeded', name)
        if not os.path.isdir(d) or not os.path.exists(d + '/patch.diff'):
            return
        prop = name.split('-')[0]
        extra = os.environ.get('SEEDED_PROPS')
        props = extra.split(',') if extra else [prop]
        scratch = tempfile.mkdtemp(prefix='vp-scratch-')
        try:
            subprocess.run(['git', '-C', '/repo', 'archive', 'HEAD', '-o', scratch + '/r.tar'], check=True)
            os.makedirs(scratch + '/repo'); subprocess.run(['tar', '-xf', scratch + '/r.tar', '-C', scratch + '/repo'], check=True)
            r = subprocess.run(['git', 'apply', '--unsafe-paths', '--directory=' + scratch + '/repo', d + '/patch.diff'], capture_output=True, text=True, cwd=scratch + '/repo')
            if r.returncode != 0:
                r = subprocess.run(['patch', '-p1', '-s', '-i', d + '/patch.diff'], cwd=scratch + '/repo', capture_output=True, text=True)
            res = {}
            for p in props:
                if p not in claimed:
                    res[p] = 'not-claimed'
                    continue
                env = dict(os.environ, VERIF_REPO=scratch + '/repo', VERIF_EVIDENCE_DIR=scratch + '/evidence', VERIF_REPLAY_DIR=scratch + '/replays')
                pr = subprocess.run([ROOT + '/check', p, '--tier', 'quick', '--jobs', os.environ.get('SEEDED_JOBS', '6'), '--repo', scratch + '/repo'], capture_output=True, text=True, env=env)
                viol = [l for l in pr.stdout.split('\n') if l.startswith('VIOLATION')]
                res[p] = {'rc': pr.returncode, 'violations': viol[:4], 'tail': pr.stdout[-300:] if pr.returncode not in (0, 1) else ''}
            out[name] = res
            print(name, json.dumps(res)[:400], flush=True)
        finally:
            shutil.rmtree(scratch, ignore_errors=True)
    with ThreadPoolExecutor(par) as ex:
        list(ex.map(one, names))
    json.dump(out, open(os.environ.get('SEEDED_OUT', '/dev/null'), 'w'), indent=1, sort_keys=True)
    return out
if __name__ == '__main__':
    main()
