"""X.696 (Basic OER) spec functions and the bit-stream algebra shared by the OER/PER encoders.

A bit string is a pair (v, n) with 0 <= v < 2^n; cat((a, m), (b, n)) = (a * 2^n + b, m + n)."""
from .prims import *


import binascii


@uninterpreted
def hex80_bytes(x) -> Seq:
    """binascii.unhexlify(hex(x)[4:]) for x = 0x80 * 256^k + v with 0 <= v < 256^k: the k octets of v
    (the leading 0x80 octet is what makes hex() keep leading zeros; assumed contract of hex/unhexlify,
    cross-checked natively)"""
    return list(binascii.unhexlify(hex(x)[4:]))


@uninterpreted
def hex80_even(x) -> Bool:
    """hex(x)[4:] has an even number of digits (unhexlify accepts it)"""
    return len(hex(x)[4:]) % 2 == 0


@axiom
def hex80_axiom(v: Int, k: Int):
    """hex()/unhexlify: for x = 0x80 * 256^k + v with 0 <= v < 256^k, hex(x) is '0x80' followed by exactly 2k hex digits
    of v, so unhexlify(hex(x)[4:]) is the k-octet big-endian form of v"""
    requires(k >= 0 and 0 <= v and v < pow2(8 * k))
    ensures(hex80_even(128 * pow2(8 * k) + v))
    ensures(len(hex80_bytes(128 * pow2(8 * k) + v)) == k)
    ensures(be_val(hex80_bytes(128 * pow2(8 * k) + v)) == v)
    ensures(hex80_bytes(128 * pow2(8 * k) + v) == be_bytes(v, k))


# ---- X.696 8.6 length determinant ----------------------------------------------------------------------

def oer_len_value_bits(n):
    """(value, number of bits) appended for the length determinant of n: short form one octet for n < 128,
    else 0x80|k followed by the k = minimal number of octets of n, big-endian"""
    if n < 128:
        return (n, 8)
    return ((128 + need8(n)) * pow2(8 * need8(n)) + n, 8 + 8 * need8(n))


def need8(n):
    """minimal number of octets (>= 1) of the unsigned big-endian form of n"""
    if n <= 0:
        return 1
    return (blen(n) + 7) // 8


# ---- X.696 10 INTEGER width selection ------------------------------------------------------------------

def oer_int_form(lo_is_min, lo, hi_is_max, hi):
    """(signed, fixed octets or 0 for variable) from the OER-visible (non-extensible) constraint (X.696 10.2/10.3)"""
    if lo_is_min or hi_is_max:
        if lo_is_min or lo < 0:
            return (True, 0)
        return (False, 0)
    if lo >= 0:
        if hi <= 255:
            return (False, 1)
        if hi <= 65535:
            return (False, 2)
        if hi <= 4294967295:
            return (False, 4)
        if hi <= 18446744073709551615:
            return (False, 8)
        return (False, 0)
    if lo >= -128 and hi <= 127:
        return (True, 1)
    if lo >= -32768 and hi <= 32767:
        return (True, 2)
    if lo >= -2147483648 and hi <= 2147483647:
        return (True, 4)
    if lo >= -9223372036854775808 and hi <= 9223372036854775807:
        return (True, 8)
    return (True, 0)


@axiom
def bin80_axiom(v: Str):
    """hex()/unhexlify on int(v, 2) for a string v of '0'/'1' that starts with '10000000' and whose length is a
    multiple of 8: hex(int(v, 2)) is '0x80' followed by exactly (len(v) - 8)/4 digits, so unhexlify(hex(..)[4:])
    has len(v)/8 - 1 octets (assumed contract of the builtins int/hex/unhexlify)"""
    requires(is_bitstr(v) and len(v) % 8 == 0 and len(v) >= 8 and v[:8] == '10000000')
    ensures(hex80_even(bits_val(v)))
    ensures(len(hex80_bytes(bits_val(v))) == len(v) // 8 - 1)


def oer_first(v, nb) -> Int:
    """the next octet of an OER decoder holding the integer v with nb bits unread"""
    return (v // pow2(nb - 8)) % 256


def oer_ld_size(v, nb) -> Int:
    """X.696 8.6: bits occupied by a length determinant: one octet, or 1 + n octets in the long form 1nnnnnnn"""
    return 8 if oer_first(v, nb) < 128 else 8 + 8 * (oer_first(v, nb) - 128)


def oer_ld_val(v, nb) -> Int:
    if oer_first(v, nb) < 128:
        return oer_first(v, nb)
    return (v // pow2(nb - 8 - 8 * (oer_first(v, nb) - 128))) % pow2(8 * (oer_first(v, nb) - 128))


def oer_enum_size(v, nb) -> Int:
    """X.696 11: an ENUMERATED value occupies one octet (0xxxxxxx) or 1 + n octets (1nnnnnnn, then n octets)"""
    return 8 if oer_first(v, nb) < 128 else 8 + 8 * (oer_first(v, nb) - 128)


def oer_tag_cont(v, nb) -> Int:
    """number of subsequent tag octets starting with nb bits unread: up to and including the first octet < 128"""
    if nb < 8 or oer_first(v, nb) < 128:
        return 1
    return 1 + oer_tag_cont(v, nb - 8)


def oer_tag_len(v, nb) -> Int:
    """X.696 8.7: a tag is one octet unless its low six bits are all ones, then subsequent octets follow"""
    if oer_first(v, nb) % 64 != 63:
        return 1
    return 1 + oer_tag_cont(v, nb - 8)


def oer_tag_cont__facts(v, nb, r):
    return r >= 1


def oer_ld_size__facts(v, nb, r):
    return r >= 8 and r % 8 == 0


def oer_tag_len__facts(v, nb, r):
    return r >= 1


@lemma
def fact_oer_ld_size(v: Int, nb: Int):
    nofacts("oer_ld_size")
    ensures(oer_ld_size(v, nb) >= 8 and oer_ld_size(v, nb) % 8 == 0)


@lemma
def fact_oer_tag_cont(v: Int, nb: Int):
    nofacts("oer_tag_cont")
    ensures(oer_tag_cont(v, nb) >= 1)
    decreases(nb)
    if nb >= 8 and oer_first(v, nb) >= 128:
        fact_oer_tag_cont(v, nb - 8)


@lemma
def fact_oer_tag_len(v: Int, nb: Int):
    nofacts("oer_tag_len")
    ensures(oer_tag_len(v, nb) >= 1)
    fact_oer_tag_cont(v, nb - 8)


def oer_ld_val__facts(v, nb, r):
    return r >= 0


@lemma
def fact_oer_ld_val(v: Int, nb: Int):
    nofacts("oer_ld_val")
    ensures(oer_ld_val(v, nb) >= 0)
