"""C12: Python-type predicates (the README's type table) and the error-location path."""
from .prims import *


def py_is_int(x):
    """isinstance(x, int)  (bool is an int)"""
    return isinstance(x, int)


def py_is_bool(x):
    return isinstance(x, bool)


def py_is_str(x):
    return isinstance(x, str)


def py_is_bytes(x):
    return isinstance(x, (bytes, bytearray))


def py_is_float(x):
    return isinstance(x, float)


def py_is_tuple(x):
    return isinstance(x, tuple)


def py_is_none(x):
    return x is None


def located_at(exc, element):
    """the error's location path ends with `element`: it is the outermost component recorded so far, so the
    dotted path printed by str(exc) (locations reversed) starts at the enclosing type and leads through it"""
    return len(exc.location) >= 1 and exc.location[len(exc.location) - 1] == ident(element)
