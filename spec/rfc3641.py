"""RFC 3641 (GSER) value notation for the leaf types (C20)."""
from .prims import *


def gser_string(s):
    """StringValue: dquote, the characters with every dquote doubled, dquote (RFC 3641 section 3.2)"""
    return '"' + replace_all(s, '"', '""') + '"'


def gser_boolean(b):
    return 'TRUE' if b else 'FALSE'


def gser_integer(n):
    return int_str(n)


@ghost
def gser_of(type_id, value, separator, indent) -> Str:
    """the text the GSER type object `type_id` produces for `value` (ghost; each encode defines it)"""
    return ''
