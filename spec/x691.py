"""X.691 (PER) spec functions over the decoder's bit string s ('0'/'1' characters) and a read position p."""
from .prims import *


def ld_first(s, p) -> Int:
    """first octet of a length determinant at bit position p"""
    return bits_val(s[p:p + 8])


def ld_size(s, p) -> Int:
    """X.691 11.9: number of bits a length determinant (or fragment header) occupies: 16 for the two-octet form
    (10xxxxxx), 8 otherwise"""
    return 16 if 128 <= bits_val(s[p:p + 8]) and bits_val(s[p:p + 8]) < 192 else 8


def ld_bad(s, p) -> Bool:
    """first octet 11xxxxxx that is not a fragment count 1..4"""
    return bits_val(s[p:p + 8]) >= 192 and not (193 <= bits_val(s[p:p + 8]) and bits_val(s[p:p + 8]) <= 196)


def ld_val(s, p) -> Int:
    """X.691 11.9.3.6-8: one octet 0xxxxxxx -> its value; two octets 10xxxxxx xxxxxxxx -> 14 bit value;
    11000mmm (m in 1..4) -> a fragment of m * 16384 items"""
    v = bits_val(s[p:p + 8])
    if v < 128:
        return v
    if v < 192:
        return (v - 128) * 256 + bits_val(s[p + 8:p + 16])
    return (v - 192) * 16384


def nsn_size(s, p) -> Int:
    """X.691 11.6: bits occupied by a normally small non-negative whole number at p: 1 + 6, or 1 + a length
    determinant + that many octets"""
    if bits_val(s[p:p + 1]) == 0:
        return 7
    return 1 + ld_size(s, p + 1) + 8 * ld_val(s, p + 1)


def nsn_val(s, p) -> Int:
    if bits_val(s[p:p + 1]) == 0:
        return bits_val(s[p + 1:p + 7])
    return bits_val(s[p + 1 + ld_size(s, p + 1):p + 1 + ld_size(s, p + 1) + 8 * ld_val(s, p + 1)])


def open_end(s, total, r) -> Int:
    """aligned PER open type (X.691 11.2 + 11.9) starting with r bits unread: pad to the octet boundary, read the
    length determinant, skip that many octets; the number of bits left unread afterwards"""
    return (r - r % 8) - ld_size(s, total - (r - r % 8)) - 8 * ld_val(s, total - (r - r % 8))


def choice_addition_end(s, total, r) -> Int:
    """X.691 23.8: extension alternative = normally small index, then the alternative as an open type"""
    return open_end(s, total, r - nsn_size(s, total - r))


def ld_size__facts(s, p, r):
    return r == 8 or r == 16


@lemma
def fact_ld_size(s: Str, p: Int):
    nofacts("ld_size")
    ensures(ld_size(s, p) == 8 or ld_size(s, p) == 16)


def in_size_range(lo, hi, n):
    """X.680 size constraint lo..hi with open ends written None / 'MIN' / 'MAX'"""
    return (lo is None or lo == 'MIN' or lo <= n) and (hi is None or hi == 'MAX' or n <= hi)


def nsn_size__facts(s, p, r):
    return r >= 7


def ld_val__facts(s, p, r):
    return r >= 0


@lemma
def fact_ld_val(s: Str, p: Int):
    nofacts("ld_val")
    ensures(ld_val(s, p) >= 0)
    fact_bits_val(s[p:p + 8])
    fact_bits_val(s[p + 8:p + 16])


@lemma
def fact_nsn_size(s: Str, p: Int):
    nofacts("nsn_size")
    ensures(nsn_size(s, p) >= 7)
    fact_ld_val(s, p + 1)
