"""C11: what the declared constraints admit (single value / single range, MIN/MAX open ends;
an extensible constraint admits everything)."""
from .prims import *


def admits(lo, hi, x):
    return (lo == 'MIN' or lo <= x) and (hi == 'MAX' or x <= hi)


def all_in(s, alphabet) -> Bool:
    """every character of s occurs in alphabet"""
    if len(s) == 0:
        return True
    return (s[len(s) - 1] in alphabet) and all_in(s[:len(s) - 1], alphabet)


@ghost
def cc_ok(type_id, value) -> Bool:
    """the constraints-checker object `type_id` accepts `value` (ghost: each concrete encode defines it)"""
    return True


@lemma
def all_in_at(s: Str, i: Int, a: Str):
    requires(0 <= i and i < len(s) and all_in(s, a))
    ensures(s[i] in a)
    decreases(len(s))
    if i < len(s) - 1:
        all_in_at(s[:len(s) - 1], i, a)


@ghost
def tc_ok(type_id, value) -> Bool:
    """the type checker of the compiled type `type_id` accepts `value` (ghost)"""
    return True
