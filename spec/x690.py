"""X.690 (BER/DER) spec functions: identifier octets 8.1.2, length octets 8.1.3 / 10.1."""
from .prims import *


def need(n):
    """number of octets needed for the unsigned big-endian form of n >= 1"""
    return (blen(n) + 7) // 8


# ---- 8.1.3 length octets ------------------------------------------------------------------

def is_der_length(r, n):
    """r is THE definite minimal length encoding of n (X.690 8.1.3.4/8.1.3.5 + 10.1):
    short form up to 127, else 0x80|k followed by the k = ceil(bits(n)/8) octets of n, big-endian
    (k minimal <=> no leading zero octet)"""
    if n <= 127:
        return len(r) == 1 and r[0] == n
    return len(r) == 1 + need(n) and r[0] == 128 + need(n) and be_val(r[1:]) == n


def len_hdr_size(d, o):
    """number of length octets of the length field starting at d[o] (caller: o < len(d))"""
    if d[o] < 128:
        return 1
    return 1 + (d[o] - 128)


def len_hdr_complete(d, o):
    return o < len(d) and o + len_hdr_size(d, o) <= len(d)


def len_value(d, o):
    """content length announced by a complete definite length field at d[o]"""
    if d[o] < 128:
        return d[o]
    return be_val(d[o + 1:o + 1 + (d[o] - 128)])


def len_is_indefinite(d, o):
    return d[o] == 128


# ---- 8.1.2 identifier octets --------------------------------------------------------------

def tag_cont_end(d, o) -> Int:
    """index one past the last subsequent identifier octet, scanning from o
    (len(d) if the data ends inside the identifier)"""
    if o >= len(d):
        return len(d)
    if d[o] < 128:
        return o + 1
    return tag_cont_end(d, o + 1)


def tag_cont_end__facts(d, o, r):
    return implies(o <= len(d), o <= r and r <= len(d)) and implies(o >= len(d), r == len(d))


def tag_cont_complete(d, o) -> Bool:
    """the subsequent identifier octets starting at o terminate inside d"""
    if o >= len(d):
        return False
    if d[o] < 128:
        return True
    return tag_cont_complete(d, o + 1)


def tag_end(d, o):
    """offset just after the identifier octets starting at d[o] (caller: identifier complete)"""
    if d[o] % 32 != 31:
        return o + 1
    return tag_cont_end(d, o + 1)


def tag_complete(d, o):
    if o >= len(d):
        return False
    if d[o] % 32 != 31:
        return True
    return tag_cont_complete(d, o + 1)


def le128(n) -> Seq:
    """little-endian base-128 digits of n (none for n <= 0), each carrying the continuation bit 0x80"""
    if n <= 0:
        return []
    return [128 + n % 128] + le128(n // 128)


def tag_octets(number, flags):
    """identifier octets (X.690 8.1.2): low form for numbers 0..30, else the leading octet with
    the five low bits set followed by the minimal big-endian base-128 digits of the number, bit 8 set
    on all but the last; flags = class and P/C bits (multiple of 32)"""
    if number < 31:
        return [flags + number]
    return [flags + 31] + rev([number % 128] + le128(number // 128))


def tlv_header_complete(d, o):
    """identifier and length octets of the TLV starting at o lie completely inside d"""
    return tag_complete(d, o) and tag_end(d, o) < len(d) and len_hdr_complete(d, tag_end(d, o))


def tlv_is_indefinite(d, o):
    return len_is_indefinite(d, tag_end(d, o))


def tlv_end(d, o):
    """offset just after the definite-length TLV whose header starts at o (whether or not the contents
    are all present in d)"""
    return tag_end(d, o) + len_hdr_size(d, tag_end(d, o)) + len_value(d, tag_end(d, o))


@ghost
def accepts(type_id, data, offset) -> Bool:
    """the BER type object `type_id` recognises the identifier octets at data[offset:] as its own (ghost predicate:
    each concrete decode defines it for its class; natively not evaluated)"""
    return True


@ghost
def content_of(type_id, value) -> Seq:
    """the content octets the BER/DER type object `type_id` produces for `value` (ghost: each concrete
    encode_content defines it for its class)"""
    return []


def is_tlv(enc, before, tag, content):
    """enc == before ++ tag ++ L ++ content where L is the definite minimal length of content (X.690 8.1, 10.1)"""
    n = len(enc)
    return (n >= len(before) + len(tag) + 1 + len(content)
            and enc[:len(before)] == before
            and enc[len(before):len(before) + len(tag)] == tag
            and is_der_length(enc[len(before) + len(tag):n - len(content)], len(content))
            and enc[n - len(content):] == content)


def bits_content_ok(r, b, n):
    """BIT STRING contents (X.690 8.6.2, DER 11.2.1): initial octet = number of unused bits (0..7), then the
    ceil(n/8) octets of the value with every unused bit zero"""
    if n % 8 == 0:
        return len(r) == 1 + n // 8 and r[0] == 0 and r[1:] == b[:n // 8]
    return (len(r) == 2 + n // 8 and r[0] == 8 - n % 8 and r[1:1 + n // 8] == b[:n // 8]
            and r[1 + n // 8] == b[n // 8] - b[n // 8] % pow2(8 - n % 8))


@lemma
def der_length_roundtrip(r: IntList, n: Int):
    """decode_length o encode_length_definite == id: the length octets r of n announce exactly n and span all of r"""
    requires(n >= 0 and is_der_length(r, n) and all_bytes(r))
    ensures(len_hdr_size(r, 0) == len(r) and len_value(r, 0) == n and not len_is_indefinite(r, 0))
    blen(n // 2)
    blen(n // 4)
    blen(n // 8)
    blen(n // 16)
    blen(n // 32)
    blen(n // 64)
    blen(n // 128)
    blen(n // 256)


@ghost
def is_dflt(type_id, value) -> Bool:
    """`value` equals the DEFAULT of the component `type_id` (ghost; BaseType.is_default and its overrides define it)"""
    return False


def oid_first_arcs(first):
    """X.690 8.19.4: the first subidentifier is 40 * arc1 + arc2 with arc1 in 0..2 and arc2 <= 39 unless arc1 = 2"""
    if first < 40:
        return [0, first]
    if first < 80:
        return [1, first - 40]
    return [2, first - 80]


def b128_val(d, i, end, acc) -> Int:
    """value of the base-128 digits d[i:end] (bit 8 = continuation flag, ignored), most significant first, continuing acc"""
    if i >= end:
        return acc
    return b128_val(d, i + 1, end, acc * 128 + d[i] % 128)


def b128_val__facts(d, i, end, acc, r):
    return implies(acc >= 0 and typed_bytes(d), r >= 0)


@lemma
def fact_tag_cont_end(d: Bytes, o: Int):
    nofacts("tag_cont_end")
    requires(o >= 0)
    ensures(implies(o <= len(d), o <= tag_cont_end(d, o) and tag_cont_end(d, o) <= len(d))
            and implies(o >= len(d), tag_cont_end(d, o) == len(d)))
    decreases(len(d) - o)
    if o < len(d):
        fact_tag_cont_end(d, o + 1)
