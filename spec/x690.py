"""X.690 (BER/DER) spec functions: identifier octets 8.1.2, length octets 8.1.3 / 10.1."""
from .prims import *


def need(n):
    """number of octets needed for the unsigned big-endian form of n >= 1"""
    return (blen(n) + 7) // 8


def be_bytes(x, k) -> Seq:
    """k-octet big-endian form of x (x mod 256^k)"""
    if k <= 0:
        return []
    return be_bytes(x // 256, k - 1) + [x % 256]


def be_bytes__facts(x, k, r):
    return implies(k >= 0, len(r) == k) and implies(k < 0, len(r) == 0)


# ---- 8.1.3 length octets ------------------------------------------------------------------

def is_der_length(r, n):
    """r is THE definite minimal length encoding of n (X.690 8.1.3.4/8.1.3.5 + 10.1)"""
    if n <= 127:
        return len(r) == 1 and r[0] == n
    return (len(r) >= 2 and r[0] == 128 + (len(r) - 1) and len(r) - 1 <= 126
            and be_val(r[1:]) == n and r[1] != 0)


def len_hdr_size(d, o):
    """number of length octets of the length field starting at d[o] (caller: o < len(d))"""
    if d[o] < 128:
        return 1
    return 1 + (d[o] - 128)


def len_hdr_complete(d, o):
    return o < len(d) and o + len_hdr_size(d, o) <= len(d)


def len_value(d, o):
    """content length announced by a complete definite length field at d[o]"""
    if d[o] < 128:
        return d[o]
    return be_val(d[o + 1:o + 1 + (d[o] - 128)])


def len_is_indefinite(d, o):
    return d[o] == 128


# ---- 8.1.2 identifier octets --------------------------------------------------------------

def tag_cont_end(d, o) -> Int:
    """index one past the last subsequent identifier octet, scanning from o
    (len(d) if the data ends inside the identifier)"""
    if o >= len(d):
        return len(d)
    if d[o] < 128:
        return o + 1
    return tag_cont_end(d, o + 1)


def tag_cont_end__facts(d, o, r):
    return implies(o <= len(d), o <= r and r <= len(d)) and implies(o >= len(d), r == len(d))


def tag_cont_complete(d, o) -> Bool:
    """the subsequent identifier octets starting at o terminate inside d"""
    if o >= len(d):
        return False
    if d[o] < 128:
        return True
    return tag_cont_complete(d, o + 1)


def tag_end(d, o):
    """offset just after the identifier octets starting at d[o] (caller: identifier complete)"""
    if d[o] % 32 != 31:
        return o + 1
    return tag_cont_end(d, o + 1)


def tag_complete(d, o):
    if o >= len(d):
        return False
    if d[o] % 32 != 31:
        return True
    return tag_cont_complete(d, o + 1)
