"""Primitive spec functions (mathematical definitions; executable twins used natively).

Each function is in the verified Python subset.  Recursive ones carry a return
annotation; the engine treats them as uninterpreted symbols plus definitional
unfolding instances.  `<f>__facts(args..., r)` gives facts assumed for every
application term r = f(args) (each proved below as a lemma or immediate from the
definition by induction; listed in the evidence under assumptions)."""

Int = int
Bool = bool
Seq = list
Str = str


def implies(a, b):
    return (not a) or b


def pow2(n) -> Int:
    if n <= 0:
        return 1
    return 2 * pow2(n - 1)


def pow2__facts(n, r):
    return r >= 1 and implies(n >= 1, r >= 2) and implies(n >= 8, r >= 256) and implies(n >= 0, r > n)


def blen(x) -> Int:
    """bit length of a non-negative integer"""
    if x <= 0:
        return 0
    return 1 + blen(x // 2)


def blen__facts(x, r):
    return r >= 0 and implies(x > 0, r >= 1) and implies(x <= 0, r == 0)


def be_val(s) -> Int:
    """big-endian value of a sequence of octets"""
    if len(s) == 0:
        return 0
    return be_val(s[:len(s) - 1]) * 256 + s[len(s) - 1]


def be_val__facts(s, r):
    return implies(all_bytes(s), r >= 0)


def le_val(s) -> Int:
    """little-endian value of a sequence of octets"""
    if len(s) == 0:
        return 0
    return s[0] + 256 * le_val(s[1:])


def rev(s) -> Seq:
    if len(s) == 0:
        return s[:0]
    return rev(s[1:]) + s[:1]


def rev__facts(s, r):
    return len(r) == len(s)


def all_bytes(s) -> Bool:
    if len(s) == 0:
        return True
    return 0 <= s[len(s) - 1] <= 255 and all_bytes(s[:len(s) - 1])


def seq_repeat(s, n) -> Seq:
    if n <= 0:
        return s[:0]
    return seq_repeat(s, n - 1) + s


def seq_repeat__facts(s, n, r):
    return implies(n >= 0, len(r) == n * len(s)) and implies(n < 0, len(r) == 0)


def seq_lt(a, b) -> Bool:
    """lexicographic order on int sequences (python's < on bytes / lists)"""
    if len(b) == 0:
        return False
    if len(a) == 0:
        return True
    if a[0] != b[0]:
        return a[0] < b[0]
    return seq_lt(a[1:], b[1:])
