"""Primitive spec functions (mathematical definitions; executable twins used natively).

Each function is in the verified Python subset.  Recursive ones carry a return
annotation; the engine treats them as uninterpreted symbols plus definitional
unfolding instances.  `<f>__facts(args..., r)` gives facts assumed for every
application term r = f(args) (each proved below as a lemma or immediate from the
definition by induction; listed in the evidence under assumptions)."""

Int = int
Nat = int
Bool = bool
Seq = list
Str = str
IntList = list
Bytes = bytes


def uninterpreted(f):
    """marks a function the solver treats as an uninterpreted symbol (only its __facts are known)"""
    return f


def axiom(f):
    """an assumed contract of a Python builtin, stated like a lemma but not proved (listed in every evidence file
    that uses it; cross-checked natively on generated inputs)"""
    return f


def ghost(f):
    """a ghost predicate/function: uninterpreted for the solver AND without executable meaning (clauses that mention it
    are skipped by the native cross-check)"""
    return f


def lemma(f):
    """marks a lemma procedure: requires/ensures/decreases + a proof body, verified by the engine"""
    return f


def implies(a, b):
    return (not a) or b


def pow2(n) -> Int:
    if n <= 0:
        return 1
    return 2 * pow2(n - 1)


def pow2__facts(n, r):
    return r >= 1 and implies(n >= 1, r >= 2) and implies(n >= 8, r >= 256) and implies(n >= 0, r > n)


def blen(x) -> Int:
    """bit length of a non-negative integer"""
    if x <= 0:
        return 0
    return 1 + blen(x // 2)


def blen__facts(x, r):
    return r >= 0 and implies(x > 0, r >= 1) and implies(x <= 0, r == 0)


def unfold(n):
    def deco(f):
        return f
    return deco


@unfold(4)
def be_val(s) -> Int:
    """big-endian value of a sequence of octets"""
    if len(s) == 0:
        return 0
    return be_val(s[:len(s) - 1]) * 256 + s[len(s) - 1]


def typed_bytes(s):
    """s is a python bytes / bytearray object (so every element is in 0..255: type invariant)"""
    return isinstance(s, (bytes, bytearray))


def be_val__facts(s, r):
    return implies(typed_bytes(s) or all_bytes(s), r >= 0)


def le_val(s) -> Int:
    """little-endian value of a sequence of octets"""
    if len(s) == 0:
        return 0
    return s[0] + 256 * le_val(s[1:])


def rev(s) -> Seq:
    if len(s) == 0:
        return s[:0]
    return rev(s[1:]) + s[:1]


def rev__facts(s, r):
    return len(r) == len(s)


def all_bytes(s) -> Bool:
    if len(s) == 0:
        return True
    return 0 <= s[len(s) - 1] <= 255 and all_bytes(s[:len(s) - 1])


def seq_repeat(s, n) -> Seq:
    if n <= 0:
        return s[:0]
    return seq_repeat(s, n - 1) + s


def seq_repeat__facts(s, n, r):
    return implies(n >= 0, len(r) == n * len(s)) and implies(n < 0, len(r) == 0)


def seq_lt(a, b) -> Bool:
    """lexicographic order on int sequences (python's < on bytes / lists)"""
    if len(b) == 0:
        return False
    if len(a) == 0:
        return True
    if a[0] != b[0]:
        return a[0] < b[0]
    return seq_lt(a[1:], b[1:])


def ident(x):
    """identity of an object (symbolically: its id; natively the object itself, so that lists of objects compare)"""
    return x


def abs_(x):
    if x < 0:
        return -x
    return x


def be_bytes(x, k) -> Seq:
    """k-octet big-endian form of x mod 256^k; for negative x this is the two's complement form
    (floor division), i.e. int.to_bytes(k, 'big', signed=True) when x fits"""
    if k <= 0:
        return []
    return be_bytes(x // 256, k - 1) + [x % 256]


def be_bytes__facts(x, k, r):
    return implies(k >= 0, len(r) == k) and implies(k < 0, len(r) == 0)


def tc_fits(x, k):
    """x is representable in k octets of two's complement"""
    return -pow2(8 * k - 1) <= x and x < pow2(8 * k - 1)


def tc_min_len(x, k):
    """k is the least number of octets (>= 1) in which x is representable (X.690 8.3.2)"""
    return k >= 1 and tc_fits(x, k) and (k == 1 or not tc_fits(x, k - 1))


def tc_val(s):
    """int.from_bytes(s, 'big', signed=True): the unsigned value, minus 2^(8n) when the top bit is set
    (top bit set  <=>  value >= 2^(8n-1))"""
    if len(s) == 0:
        return 0
    if be_val(s) >= pow2(8 * len(s) - 1):
        return be_val(s) - pow2(8 * len(s))
    return be_val(s)


# ---------------------------------------------------------------------------------------------
# lemmas (proved by the engine itself: induction = recursive call with a decreases measure)

@lemma
def blen_upper(m: Int):
    requires(m >= 0)
    ensures(m < pow2(blen(m)))
    decreases(m)
    if m > 0:
        blen_upper(m // 2)


@lemma
def blen_lower(m: Int):
    requires(m > 0)
    ensures(pow2(blen(m) - 1) <= m)
    decreases(m)
    if m > 1:
        blen_lower(m // 2)


@lemma
def pow2_mono(a: Int, b: Int):
    requires(0 <= a and a <= b)
    ensures(pow2(a) <= pow2(b))
    decreases(b - a)
    if a < b:
        pow2_mono(a, b - 1)


def lv(s, hi) -> Int:
    """little-endian value of the octets s continued by the number hi:  sum s[i]*256^i + hi*256^len(s)"""
    if len(s) == 0:
        return hi
    return s[0] + 256 * lv(s[1:], hi)


@lemma
def lv_snoc(s: IntList, x: Int):
    ensures(lv(s + [x % 256], x // 256) == lv(s, x))
    decreases(len(s))
    if len(s) > 0:
        lv_snoc(s[1:], x)


@lemma
def be_val_rev(s: IntList):
    ensures(be_val(rev(s)) == lv(s, 0))
    decreases(len(s))
    if len(s) > 0:
        be_val_rev(s[1:])


@lemma
def rev_snoc(s: IntList, x: Int):
    ensures(rev(s + [x]) == [x] + rev(s))
    decreases(len(s))
    if len(s) > 0:
        rev_snoc(s[1:], x)


@lemma
def blen_div256(x: Int):
    requires(x >= 256)
    ensures(blen(x // 256) == blen(x) - 8)
    blen(x // 4)
    blen(x // 16)
    blen(x // 64)


@lemma
def blen_small(x: Int):
    requires(0 < x and x < 256)
    ensures(1 <= blen(x) and blen(x) <= 8)
    blen(x // 4)
    blen(x // 16)
    blen(x // 64)
    blen(x // 256)


@lemma
def blen_le(x: Int, b: Int):
    """x < 2^b  ==>  blen(x) <= b"""
    requires(0 <= x and b >= 0 and x < pow2(b))
    ensures(blen(x) <= b)
    if x > 0:
        blen_lower(x)
        if blen(x) - 1 >= b:
            pow2_mono(b, blen(x) - 1)


@lemma
def be_val_nonneg(s: IntList):
    requires(all_bytes(s))
    ensures(be_val(s) >= 0)
    decreases(len(s))
    if len(s) > 0:
        be_val_nonneg(s[:len(s) - 1])


@uninterpreted
def band(x, y) -> Int:
    """x & y for two symbolic operands (no bit-level reasoning; only the facts below)"""
    return x & y


def band__facts(x, y, r):
    return implies(x >= 0 and y >= 0, 0 <= r and r <= x and r <= y)


@uninterpreted
def bor(x, y) -> Int:
    """x | y for two symbolic operands"""
    return x | y


def bor__facts(x, y, r):
    return implies(x >= 0 and y >= 0, r >= x and r >= y and r <= x + y)


@lemma
def pow2_add(m: Int, n: Int):
    requires(m >= 0 and n >= 0)
    ensures(pow2(m + n) == pow2(m) * pow2(n))
    decreases(n)
    if n > 0:
        pow2_add(m, n - 1)


@lemma
def cat_bound(a: Int, m: Int, b: Int, n: Int):
    """concatenating an m-bit and an n-bit string gives an (m+n)-bit string"""
    requires(m >= 0 and n >= 0 and 0 <= a and a < pow2(m) and 0 <= b and b < pow2(n))
    ensures(0 <= a * pow2(n) + b and a * pow2(n) + b < pow2(m + n))
    pow2_add(m, n)
    mul_mono(a + 1, pow2(m), pow2(n))


@lemma
def mul_mono(x: Int, y: Int, p: Int):
    requires(x <= y and p >= 0)
    ensures(x * p <= y * p)
    decreases(p)
    if p > 0:
        mul_mono(x, y, p - 1)


@lemma
def be_val_bound(s: IntList):
    requires(typed_bytes(s) or all_bytes(s))
    ensures(0 <= be_val(s) and be_val(s) < pow2(8 * len(s)))
    decreases(len(s))
    if len(s) > 0:
        be_val_bound(s[:len(s) - 1])
        pow2_add(8 * (len(s) - 1), 8)
        all_bytes(s)


def is_bitstr(s) -> Bool:
    """every character of s is '0' or '1'"""
    if len(s) == 0:
        return True
    return (s[len(s) - 1] == '0' or s[len(s) - 1] == '1') and is_bitstr(s[:len(s) - 1])


def bits_val(s) -> Int:
    """int(s, 2) for a string of '0'/'1' (0 for the empty string)"""
    if len(s) == 0:
        return 0
    return 2 * bits_val(s[:len(s) - 1]) + (1 if s[len(s) - 1] == '1' else 0)


def bits_val__facts(s, r):
    return r >= 0


@lemma
def is_bitstr_slice(s: Str, a: Int, b: Int):
    requires(is_bitstr(s) and 0 <= a and a <= b and b <= len(s))
    ensures(is_bitstr(s[a:b]))
    decreases(len(s))
    if len(s) > 0:
        if b == len(s):
            if a < b:
                is_bitstr_slice(s[:len(s) - 1], a, b - 1)
        else:
            is_bitstr_slice(s[:len(s) - 1], a, b)


@lemma
def bits_val_bound(s: Str):
    ensures(bits_val(s) < pow2(len(s)))
    decreases(len(s))
    if len(s) > 0:
        bits_val_bound(s[:len(s) - 1])


def is_decimal(s):
    """int(s) accepts s -- modelled for single digit strings only (the only use in the code under contract)"""
    return len(s) == 1 and (s == '0' or s == '1' or s == '2' or s == '3' or s == '4' or s == '5' or s == '6'
                            or s == '7' or s == '8' or s == '9')


def dec_val(s):
    if s == '0':
        return 0
    if s == '1':
        return 1
    if s == '2':
        return 2
    if s == '3':
        return 3
    if s == '4':
        return 4
    if s == '5':
        return 5
    if s == '6':
        return 6
    if s == '7':
        return 7
    if s == '8':
        return 8
    return 9


@uninterpreted
def ord_(c) -> Int:
    """ord() of a one-character string"""
    return ord(c)


def ord___facts(c, r):
    return r >= 0


@uninterpreted
def chr_(n) -> Str:
    return chr(n)


# ---------------------------------------------------------------------------------------------
# round-trip lemmas (C01): decode o encode == id, as lemmas over the spec functions the two contracts use

@lemma
def pow2_8(k: Int):
    requires(k >= 1)
    ensures(pow2(8 * k) == 256 * pow2(8 * k - 8))
    pow2_add(8 * k - 8, 8)


@lemma
def be_roundtrip_nonneg(x: Int, k: Int):
    requires(k >= 0 and 0 <= x and x < pow2(8 * k))
    ensures(be_val(be_bytes(x, k)) == x)
    decreases(k)
    if k > 0:
        pow2_8(k)
        be_roundtrip_nonneg(x // 256, k - 1)


@lemma
def be_roundtrip_neg(x: Int, k: Int):
    requires(k >= 0 and -pow2(8 * k) <= x and x < 0)
    ensures(be_val(be_bytes(x, k)) == x + pow2(8 * k))
    decreases(k)
    if k > 0:
        pow2_8(k)
        be_roundtrip_neg(x // 256, k - 1)


@lemma
def tc_roundtrip(x: Int, k: Int):
    """INTEGER contents: from_bytes(to_bytes(x, k, signed), signed) == x   (BER/DER/OER/PER two's complement)"""
    requires(k >= 1 and tc_fits(x, k))
    ensures(tc_val(be_bytes(x, k)) == x)
    pow2_add(8 * k - 1, 1)
    pow2_mono(8 * k - 1, 8 * k)
    if x >= 0:
        be_roundtrip_nonneg(x, k)
    else:
        be_roundtrip_neg(x, k)


@lemma
def field_cat(a: Int, v: Int, n: Int, b: Int, k: Int):
    """reading n bits at the right position of  cat(cat(a, (v, n)), (b, k))  returns v   (PER/OER stream round trip)"""
    requires(n >= 0 and k >= 0 and a >= 0 and 0 <= v and v < pow2(n) and 0 <= b and b < pow2(k))
    ensures((((a * pow2(n) + v) * pow2(k) + b) // pow2(k)) % pow2(n) == v)
    div_cat(a * pow2(n) + v, b, pow2(k))
    mod_cat(a, v, pow2(n))


@lemma
def div_cat(q: Int, r: Int, p: Int):
    requires(p > 0 and 0 <= r and r < p)
    ensures((q * p + r) // p == q)


@lemma
def mod_cat(q: Int, r: Int, p: Int):
    requires(p > 0 and 0 <= r and r < p)
    ensures((q * p + r) % p == r)


@lemma
def blen_mono(x: Int, y: Int):
    requires(0 <= x and x <= y)
    ensures(blen(x) <= blen(y))
    decreases(y)
    if x > 0:
        blen_mono(x // 2, y // 2)


@uninterpreted
def text_decode(octets, encoding) -> Str:
    """bytes.decode(encoding) (assumed builtin: a function of the octets and the codec name)"""
    return bytes(octets).decode(encoding)


@uninterpreted
def decodable(octets, encoding) -> Bool:
    """bytes(octets).decode(encoding) succeeds"""
    try:
        bytes(octets).decode(encoding)
        return True
    except UnicodeDecodeError:
        return False


@uninterpreted
def text_encode(text, encoding) -> Seq:
    return list(text.encode(encoding))


def concat_all(segments):
    """concatenation of a (concrete-length) list of octet strings"""
    out = []
    for s in segments:
        out = out + list(s)
    return out


@lemma
def div_div2(p: Int, q: Int):
    requires(p >= 0 and q > 0)
    ensures((p // q) // 2 == p // (2 * q))


@lemma
def prefix_step(p: Int, e: Int):
    """the top bits of p above position e: one more bit is 2 * (bits above e+1) + bit e"""
    requires(p >= 0 and e >= 0)
    ensures(p // pow2(e) == 2 * (p // pow2(e + 1)) + (p // pow2(e)) % 2)
    div_div2(p, pow2(e))


# ---------------------------------------------------------------------------------------------
# the side facts (<f>__facts) proved as lemmas, with the fact itself switched off (nofacts)

@lemma
def fact_pow2(n: Int):
    nofacts("pow2")
    ensures(pow2(n) >= 1 and implies(n >= 1, pow2(n) >= 2) and implies(n >= 8, pow2(n) >= 256) and implies(n >= 0, pow2(n) > n))
    decreases(n)
    if n > 0:
        fact_pow2(n - 1)
        if n >= 8:
            fact_pow2(n - 8)
            pow2(n - 2)
            pow2(n - 3)
            pow2(n - 4)
            pow2(n - 5)
            pow2(n - 6)
            pow2(n - 7)


@lemma
def fact_blen(x: Int):
    nofacts("blen")
    ensures(blen(x) >= 0 and implies(x > 0, blen(x) >= 1) and implies(x <= 0, blen(x) == 0))
    decreases(x)
    if x > 0:
        fact_blen(x // 2)


@lemma
def fact_rev(s: IntList):
    nofacts("rev")
    ensures(len(rev(s)) == len(s))
    decreases(len(s))
    if len(s) > 0:
        fact_rev(s[1:])


@lemma
def fact_be_bytes(x: Int, k: Int):
    nofacts("be_bytes")
    ensures(implies(k >= 0, len(be_bytes(x, k)) == k) and implies(k < 0, len(be_bytes(x, k)) == 0))
    decreases(k)
    if k > 0:
        fact_be_bytes(x // 256, k - 1)


@lemma
def fact_seq_repeat(s: IntList, n: Int):
    nofacts("seq_repeat")
    ensures(implies(n >= 0, len(seq_repeat(s, n)) == n * len(s)) and implies(n < 0, len(seq_repeat(s, n)) == 0))
    decreases(n)
    if n > 0:
        fact_seq_repeat(s, n - 1)


@lemma
def fact_bits_val(s: Str):
    nofacts("bits_val")
    ensures(bits_val(s) >= 0)
    decreases(len(s))
    if len(s) > 0:
        fact_bits_val(s[:len(s) - 1])


def lv_be(acc, s) -> Int:
    """big-endian value of the octets s continuing the accumulator acc"""
    if len(s) == 0:
        return acc
    return lv_be(acc * 256 + s[0], s[1:])


@uninterpreted
def int_str(n) -> Str:
    """str(n) for an int (decimal notation)"""
    return str(n)


@uninterpreted
def replace_all(s, a, b) -> Str:
    """s.replace(a, b)"""
    return s.replace(a, b)


@uninterpreted
def str_upper(s) -> Str:
    return s.upper()


@uninterpreted
def str_lstrip(s, chars) -> Str:
    return s.lstrip(chars)


def str_repeat(s, n) -> Str:
    if n <= 0:
        return ''
    return str_repeat(s, n - 1) + s


@axiom
def bor_bound(x: Int, y: Int, n: Int):
    """bitwise or of two n-bit numbers is an n-bit number (assumed property of the builtin `|`)"""
    requires(n >= 0 and 0 <= x and x < pow2(n) and 0 <= y and y < pow2(n))
    ensures(0 <= bor(x, y) and bor(x, y) < pow2(n) and bor(x, y) >= x)


@lemma
def is_bitstr_concat(a: Str, b: Str):
    requires(is_bitstr(a) and is_bitstr(b))
    ensures(is_bitstr(a + b))
    decreases(len(b))
    if len(b) > 0:
        is_bitstr_concat(a, b[:len(b) - 1])


@lemma
def is_bitstr_zeros(n: Int):
    ensures(is_bitstr(str_repeat('0', n)))
    decreases(n)
    if n > 0:
        is_bitstr_zeros(n - 1)


def str_repeat__facts(s, n, r):
    return implies(n >= 0, len(r) == n * len(s)) and implies(n < 0, len(r) == 0)


@lemma
def fact_str_repeat(s: Str, n: Int):
    nofacts("str_repeat")
    ensures(implies(n >= 0, len(str_repeat(s, n)) == n * len(s)) and implies(n < 0, len(str_repeat(s, n)) == 0))
    decreases(n)
    if n > 0:
        fact_str_repeat(s, n - 1)


@lemma
def is_bitstr_80():
    ensures(is_bitstr('10000000'))
    assert is_bitstr('1')
    assert is_bitstr('10')
    assert is_bitstr('100')
    assert is_bitstr('1000')
    assert is_bitstr('10000')
    assert is_bitstr('100000')
    assert is_bitstr('1000000')


@lemma
def div_lt128(r: Int, q: Int):
    requires(0 <= r and q > 0 and r < 128 * q)
    ensures(r // q < 128 and r // q >= 0)
    if r // q >= 128:
        mul_mono(128, r // q, q)


@lemma
def clear_top(v: Int, q: Int):
    """dropping everything above 7 bits over a unit q:  (v mod 128q) div q == (v div q) mod 128"""
    requires(v >= 0 and q > 0)
    ensures((v % (128 * q)) // q == (v // q) % 128)
    a = v // (128 * q)
    r = v % (128 * q)
    c = r // q
    d = r % q
    div_lt128(r, q)
    assert v == (128 * a + c) * q + d
    div_cat(128 * a + c, d, q)
    mod_cat(a, c, 128)


@lemma
def clear_top_p(v: Int, n: Int):
    """clearing bit n-1 of v (and everything above): the octet at bits n-8..n-1 keeps its low 7 bits"""
    requires(v >= 0 and n >= 8)
    ensures((v % pow2(n - 1)) // pow2(n - 8) == (v // pow2(n - 8)) % 128)
    ensures(((v % pow2(n - 1)) // pow2(n - 8)) % 256 == ((v // pow2(n - 8)) % 256) % 128)
    pow2_add(7, n - 8)
    clear_top(v, pow2(n - 8))


@lemma
def div_div128(v: Int, q: Int):
    requires(v >= 0 and q > 0)
    ensures((v // q) // 128 == v // (128 * q))


@lemma
def octet_top(v: Int, n: Int):
    """the next unread bit (bit n-1) is the top bit of the next unread octet (bits n-8..n-1)"""
    requires(v >= 0 and n >= 8)
    ensures((v // pow2(n - 1)) % 2 == ((v // pow2(n - 8)) % 256) // 128)
    pow2_add(7, n - 8)
    div_div128(v, pow2(n - 8))


def bin_digits(x) -> Str:
    """bin(x)[2:] for x >= 0: the binary digits of x, most significant first ('0' for 0)"""
    if x < 2:
        return '1' if x == 1 else '0'
    return bin_digits(x // 2) + ('1' if x % 2 == 1 else '0')


def bin_digits__facts(x, r):
    return implies(x >= 1, len(r) == blen(x)) and implies(x < 1, len(r) == 1)


@lemma
def fact_bin_digits(x: Int):
    nofacts("bin_digits")
    ensures(implies(x >= 1, len(bin_digits(x)) == blen(x)) and implies(x < 1, len(bin_digits(x)) == 1))
    decreases(x)
    if x >= 2:
        fact_bin_digits(x // 2)


def str_upper__facts(s, r):
    return len(r) == len(s)


@lemma
def blen_exact(x: Int, n: Int):
    """2^(n-1) <= x < 2^n  ==>  blen(x) == n"""
    requires(n >= 1 and pow2(n - 1) <= x and x < pow2(n))
    ensures(blen(x) == n)
    blen_le(x, n)
    blen_upper(x)
    if blen(x) <= n - 1:
        pow2_mono(blen(x), n - 1)


@lemma
def shift_bound(x: Int, a: Int, b: Int):
    """dropping the a low bits of an (a+b)-bit number leaves a b-bit number"""
    requires(a >= 0 and b >= 0 and 0 <= x and x < pow2(a + b))
    ensures(0 <= x // pow2(a) and x // pow2(a) < pow2(b))
    pow2_add(a, b)
    if x // pow2(a) >= pow2(b):
        mul_mono(pow2(b), x // pow2(a), pow2(a))
