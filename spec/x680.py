"""X.680 12.6 comments: reference automaton for the comment-blanking pre-pass (C14).

Tokens are scanned left to right; at each position the first of  /*  */  --  newline  "  that matches is taken
(for valid ASN.1 text this is the X.680 lexical structure; `*/` outside a comment is consumed as a token and ignored).
States: code, character string "...", line comment (ends at the next -- or at a newline, which is kept),
block comment with nesting depth.  Result: every comment character replaced by a space, newlines kept (so line
numbers of later items are unchanged), everything else untouched; None when a comment is not terminated."""


def blank_comments(s):
    out = []
    i = 0
    n = len(s)
    state = 'code'
    depth = 0
    while i < n:
        tok = None
        for t in ('/*', '*/', '--', '\n', '"'):
            if s.startswith(t, i):
                tok = t
                break
        if tok is None:
            out.append(s[i] if state in ('code', 'str') else ' ')
            i += 1
            continue
        k = len(tok)
        if state == 'str':
            out.append(tok)
            if tok == '"':
                state = 'code'
        elif state == 'line':
            if tok == '--':
                out.append('  ')
                state = 'code'
            elif tok == '\n':
                out.append('\n')
                state = 'code'
            else:
                out.append(' ' * k)
        elif state == 'block':
            if tok == '/*':
                depth += 1
                out.append('  ')
            elif tok == '*/':
                depth -= 1
                out.append('  ')
                if depth == 0:
                    state = 'code'
            elif tok == '\n':
                out.append('\n')
            else:
                out.append(' ' * k)
        else:
            if tok == '--':
                state = 'line'
                out.append('  ')
            elif tok == '/*':
                state = 'block'
                depth = 1
                out.append('  ')
            elif tok == '"':
                state = 'str'
                out.append('"')
            else:
                out.append(tok)
        i += k
    if state in ('line', 'block'):
        return None
    return ''.join(out)
